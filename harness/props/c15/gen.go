package c15

import (
	"fmt"
	"strings"

	"github.com/hashicorp/hcl/v2"
	"github.com/hashicorp/hcl/v2/hclsyntax"

	"hx/lib"
)

// ---------------------------------------------------------------------------
// valid programs

var genStrings = append(append([]string{}, lib.DefaultStrings...), "e\u0301", "👍🏽", "~", " ~ ", "EOT", "\u00a0")

func plain(toks []lib.Tk) string {
	var sb strings.Builder
	for i, t := range toks {
		if t.NL {
			sb.WriteString("\n")
			continue
		}
		if i > 0 {
			sb.WriteString(" ")
		}
		sb.WriteString(t.Text)
	}
	return sb.String()
}

func exprText(r *lib.Rand, eg *lib.ExprGen, depth int) string {
	rd := &lib.Renderer{R: r, ExtraParen: 4}
	var toks []lib.Tk
	rd.Expr(&toks, eg.Expr(depth))
	return plain(toks)
}

// templateBody writes template text (no delimiters): literals, interpolations, balanced directives.
// quoted selects the escaping rules of a quoted template, otherwise heredoc / bare rules apply.
func templateBody(r *lib.Rand, eg *lib.ExprGen, depth int, quoted bool, nl string) string {
	var sb strings.Builder
	texts := []string{"hello", "two words", "é", "e\u0301", "👍🏽 ok", "$", "%", "$${x}", "%%{y}", "}", "{", "~", "#x", "//", "EOTX", " ", "  "}
	if quoted {
		texts = append(texts, `\"`, `\\`, `\n`, `\t`, `é`, `\U0001F600`)
	} else {
		texts = append(texts, `"q"`, `back\slash`, "\t", nl, nl+"  ")
	}
	var open []string
	for k := 1 + r.Intn(5); k > 0; k-- {
		switch r.Intn(9) {
		case 0, 1, 2, 3:
			sb.WriteString(r.Pick(texts))
		case 4, 5:
			sb.WriteString("${" + r.Pick([]string{"", "~", " "}) + exprText(r, eg, r.Intn(depth+1)) + r.Pick([]string{"", "~", " "}) + "}")
		case 6:
			if r.Chance(1, 2) {
				sb.WriteString("%{" + r.Pick([]string{"", "~ ", " "}) + "if " + exprText(r, eg, r.Intn(depth+1)) + r.Pick([]string{"", " ~"}) + "}")
				open = append(open, "%{endif}")
			} else {
				vars := r.Pick([]string{"tv", "tk, tv"})
				sb.WriteString("%{for " + vars + " in " + exprText(r, eg, r.Intn(depth+1)) + r.Pick([]string{"", " ~"}) + "}")
				open = append(open, "%{endfor}")
			}
		default:
			if len(open) > 0 {
				top := open[len(open)-1]
				if top == "%{endif}" && r.Chance(1, 3) {
					sb.WriteString(r.Pick([]string{"%{else}", "%{~ else ~}"}))
				} else {
					sb.WriteString(top)
					open = open[:len(open)-1]
				}
			} else {
				sb.WriteString(r.Pick(texts))
			}
		}
	}
	for len(open) > 0 {
		sb.WriteString(open[len(open)-1])
		open = open[:len(open)-1]
	}
	return sb.String()
}

func heredocText(r *lib.Rand, eg *lib.ExprGen, crlf bool) string {
	marker := r.Pick([]string{"EOT", "EOT", "END_1", "E", "é", "x-y"})
	nl := "\n"
	if crlf {
		nl = "\r\n"
	}
	flush := r.Chance(1, 3)
	var sb strings.Builder
	sb.WriteString("<<")
	if flush {
		sb.WriteString("-")
	}
	sb.WriteString(marker + nl)
	for i := r.Intn(4); i > 0; i-- {
		if flush || r.Chance(1, 3) {
			sb.WriteString(strings.Repeat(" ", r.Intn(5)))
		}
		sb.WriteString(templateBody(r, eg, 1, false, nl) + nl)
	}
	if flush {
		sb.WriteString(strings.Repeat(" ", r.Intn(4)))
	}
	sb.WriteString(marker + nl)
	return sb.String()
}

// decorate turns some strings of a generated body tree into heredocs and some values into long templates.
func decorate(r *lib.Rand, eg *lib.ExprGen, body *lib.Node, crlf bool) {
	var walkExpr func(n *lib.Node) *lib.Node
	walkExpr = func(n *lib.Node) *lib.Node {
		if (n.K == "str" || n.K == "tmpl") && r.Chance(1, 10) {
			return lib.N("paren", "", &lib.Node{K: "raw", S: heredocText(r, eg, crlf)})
		}
		if n.K == "str" && r.Chance(1, 10) {
			return &lib.Node{K: "raw", S: `"` + templateBody(r, eg, 1, true, "") + `"`}
		}
		if n.K == "tmpl" {
			return n
		}
		start := 0
		step := 1
		if n.K == "object" {
			start, step = 1, 2
		}
		for i := start; i < len(n.Kids); i += step {
			n.Kids[i] = walkExpr(n.Kids[i])
		}
		return n
	}
	var walkBody func(b *lib.Node)
	walkBody = func(b *lib.Node) {
		for _, it := range b.Kids {
			switch it.K {
			case "attrdef":
				if r.Chance(1, 6) {
					it.Kids[0] = &lib.Node{K: "raw", S: heredocText(r, eg, crlf)}
				} else {
					it.Kids[0] = walkExpr(it.Kids[0])
				}
			case "block":
				if !it.Flag {
					walkBody(it.Kids[len(it.Kids)-1])
				}
			}
		}
	}
	walkBody(body)
}

func genConfig(r *lib.Rand, big bool) string {
	eg := &lib.ExprGen{R: r, Strings: genStrings}
	bg := &lib.BodyGen{R: r, E: eg, ExprDep: 2}
	depth := 1 + r.Intn(2)
	if big {
		bg.ExprDep = 4
		depth = 3
	}
	body := bg.Body(depth)
	lay := lib.RandomLayout(r)
	decorate(r, eg, body, lay.CRLF)
	rd := &lib.Renderer{R: r, ExtraParen: 4}
	var toks []lib.Tk
	rd.BodyTokens(&toks, body)
	src := lib.RenderChecked(toks, lay)
	if r.Chance(1, 10) {
		src = strings.TrimRight(src, "\r\n")
	}
	if r.Chance(1, 30) {
		src = "\ufeff" + src
	}
	return src
}

func genExpr(r *lib.Rand, big bool) string {
	eg := &lib.ExprGen{R: r, Strings: genStrings}
	d := 1 + r.Intn(3)
	if big {
		d = 5
	}
	rd := &lib.Renderer{R: r, ExtraParen: 5}
	var toks []lib.Tk
	rd.Expr(&toks, eg.Expr(d))
	lay := lib.RandomLayout(r)
	lay.NoNLIn = r.Chance(1, 2)
	return lib.RenderChecked(toks, lay)
}

func genTemplate(r *lib.Rand) string {
	eg := &lib.ExprGen{R: r, Strings: genStrings}
	var sb strings.Builder
	for i := 1 + r.Intn(3); i > 0; i-- {
		sb.WriteString(templateBody(r, eg, 2, false, r.Pick([]string{"\n", "\r\n"})))
	}
	return sb.String()
}

func genTraversal(r *lib.Rand) string {
	var sb strings.Builder
	sb.WriteString(r.Pick([]string{"a", "foo", "x-y", "é", "var", "for", "null", "true", "_"}))
	for i := r.Intn(6); i > 0; i-- {
		sp := r.Pick([]string{"", "", "", " ", "\n"})
		switch r.Intn(8) {
		case 0, 1, 2:
			sb.WriteString(sp + "." + sp + r.Pick([]string{"b", "name", "x-y", "for", "é", "k1"}))
		case 3:
			sb.WriteString(sp + "[" + sp + fmt.Sprint(r.Intn(100)) + sp + "]")
		case 4:
			sb.WriteString(sp + `["` + r.Pick([]string{"k", "a b", "é", `q\"`, ""}) + `"]`)
		case 5:
			sb.WriteString("." + fmt.Sprint(r.Intn(12)))
		case 6:
			sb.WriteString(r.Pick([]string{"[*]", ".*", "[ * ]"}))
		default:
			sb.WriteString(r.Pick([]string{"[true]", "[null]", "[1.5]", "[-1]", "[a]", "[\"${x}\"]", "[1e3]", ".0.1"}))
		}
	}
	return sb.String()
}

// ---- JSON (HCL's JSON profile: objects as bodies, arrays of objects as repeated blocks, strings as templates)

func jsonStr(r *lib.Rand) string {
	parts := []string{"a", "name", "hello world", "é", "e\u0301", "👍🏽", `\"`, `\\`, `\n`, `é`, `😀`, `\/`, "${a}", "${a.b[0]}", "${upper(x)}", "%{if c}y%{else}n%{endif}", "%{for v in l}${v}%{endfor}", "$${esc}", "${", "x-y", "//", " "}
	var sb strings.Builder
	sb.WriteString(`"`)
	for k := r.Intn(4); k > 0; k-- {
		sb.WriteString(r.Pick(parts))
	}
	sb.WriteString(`"`)
	return sb.String()
}

func jsonWS(r *lib.Rand) string {
	return r.Pick([]string{"", "", "", " ", "  ", "\n", "\r\n", "\t", "\n  "})
}

func jsonKey(r *lib.Rand) string {
	return `"` + r.Pick([]string{"a", "b", "name", "count", "block", "resource", "service", "x-y", "for", "//", "", "é", "k1", "cfg", "list", "${a}"}) + `"`
}

func jsonVal(r *lib.Rand, depth int) string {
	k := r.Intn(10)
	if depth <= 0 && k < 4 {
		k += 4
	}
	switch k {
	case 0, 1, 2:
		var sb strings.Builder
		sb.WriteString("{")
		n := r.Intn(4)
		for i := 0; i < n; i++ {
			if i > 0 {
				sb.WriteString(",")
			}
			sb.WriteString(jsonWS(r) + jsonKey(r) + jsonWS(r) + ":" + jsonWS(r) + jsonVal(r, depth-1) + jsonWS(r))
		}
		sb.WriteString(jsonWS(r) + "}")
		return sb.String()
	case 3:
		var sb strings.Builder
		sb.WriteString("[")
		n := r.Intn(4)
		for i := 0; i < n; i++ {
			if i > 0 {
				sb.WriteString(",")
			}
			sb.WriteString(jsonWS(r) + jsonVal(r, depth-1) + jsonWS(r))
		}
		sb.WriteString("]")
		return sb.String()
	case 4, 5, 6:
		return jsonStr(r)
	case 7:
		return r.Pick([]string{"0", "-1", "12", "1.5", "1e5", "-0.5E-3", "1E+2", "12345678901234567890123", "1e400"})
	default:
		return r.Pick([]string{"true", "false", "null"})
	}
}

func genJSON(r *lib.Rand, big bool) string {
	d := 1 + r.Intn(3)
	if big {
		d = 5
	}
	if r.Chance(1, 8) {
		return jsonWS(r) + jsonVal(r, 0) + jsonWS(r) // not an object: legal for expressions only
	}
	var sb strings.Builder
	sb.WriteString(jsonWS(r) + "{")
	n := r.Intn(5)
	for i := 0; i < n; i++ {
		if i > 0 {
			sb.WriteString(",")
		}
		sb.WriteString(jsonWS(r) + jsonKey(r) + jsonWS(r) + ":" + jsonWS(r) + jsonVal(r, d) + jsonWS(r))
	}
	sb.WriteString("}" + jsonWS(r))
	return sb.String()
}

// ---------------------------------------------------------------------------
// damage

var damageFrags = map[string][]string{
	"bracket":    {"(", ")", "[", "]", "{", "}", "((", "))", "[[", "]]", "{{", "}}", "[*]", "[*", "*]"},
	"quote":      {"\"", "\"\"", "\\\"", "'", "`", "“", "\\", "\\u12", "\\U0001", "\\x"},
	"introducer": {"${", "%{", "${~", "%{~", "~}", "}", "$", "%", "$${", "%%{", "$$", "${\"", "%{if", "%{ if true }", "%{else}", "%{endif}", "%{endfor}", "%{ for x in y }", "%{for", "%{ in }"},
	"heredoc":    {"<<EOT\n", "<<-EOT\n", "<<EOT", "<<", "<<-", "EOT\n", "EOT", "\nEOT\n", "  EOT\n", "<<EOT\r\n", "<<\n", "<<é\n", "<<EOT x\n"},
	"keyword":    {"for", "in", "if", "else", "endif", "endfor", "null", "true", "false", " for ", " in ", " if ", "for x in"},
	"operator":   {"=", "==", "!=", "<", ">", "<=", ">=", "&&", "||", "!", "+", "-", "*", "/", "%", "?", ":", "::", "=>", "...", ".", ",", "..", "....", "&", "|", "^", "~", "**", ";", ":::"},
	"badutf8":    {"\xff", "\xfe", "\xc0\xaf", "\xe2\x82", "\xe2", "\x80", "\xf0\x9f", "\xed\xa0\x80", "\xf5\x80\x80\x80", "\xeb\n", "\xc4\n"},
	"control":    {"\x00", "\x01", "\x07", "\x08", "\x0b", "\x0c", "\x1b", "\x7f", "\r", "\r\n", "\n", "\t", "\ufeff", "\u2028", "\u0085"},
	"json":       {"{", "}", "[", "]", ":", ",", "\"", "null", "tru", "1e", "-", "//", "\"//\":", "{}", "[]", "[{}]", "\\", "="},
	"number":     {"0", "1.5", "1e5", "1e", "1.", ".5", "0x1", "1.2.3", "99999999999999999999", "1e400", "1e-400"},
	"comment":    {"#", "//", "/*", "*/", "# x\n", "/* x */", "/**/"},
}

var damageClasses = func() []string {
	var ks []string
	for k := range damageFrags {
		ks = append(ks, k)
	}
	sortStrings(ks)
	return ks
}()

func sortStrings(a []string) {
	for i := 1; i < len(a); i++ {
		for j := i; j > 0 && a[j] < a[j-1]; j-- {
			a[j], a[j-1] = a[j-1], a[j]
		}
	}
}

// tokenBoundaries lists the byte offsets at which the native scanner starts a token.
func tokenBoundaries(src []byte) []int {
	toks, _ := hclsyntax.LexConfig(src, "", hcl.InitialPos)
	out := make([]int, 0, len(toks))
	for _, t := range toks {
		out = append(out, t.Range.Start.Byte)
	}
	return out
}

// damage applies 1-3 near-valid edits and reports their classes.
func damage(r *lib.Rand, src []byte) ([]byte, []string) {
	out := append([]byte{}, src...)
	var classes []string
	for k := 1 + r.Intn(3); k > 0; k-- {
		if len(out) == 0 {
			out = []byte(r.Pick(damageFrags["bracket"]))
			continue
		}
		// edit positions: mostly token boundaries, sometimes anywhere
		pos := r.Intn(len(out) + 1)
		if r.Chance(2, 3) {
			if tb := tokenBoundaries(out); len(tb) > 0 {
				pos = tb[r.Intn(len(tb))]
				if pos > len(out) {
					pos = len(out)
				}
			}
		}
		switch r.Intn(12) {
		case 0, 1, 2, 3: // insert a fragment
			cl := damageClasses[r.Intn(len(damageClasses))]
			f := r.Pick(damageFrags[cl])
			out = append(out[:pos], append([]byte(f), out[pos:]...)...)
			classes = append(classes, "insert-"+cl)
		case 4, 5: // replace the token / bytes at pos by a fragment
			cl := damageClasses[r.Intn(len(damageClasses))]
			f := r.Pick(damageFrags[cl])
			end := pos + 1 + r.Intn(3)
			if end > len(out) {
				end = len(out)
			}
			out = append(out[:pos], append([]byte(f), out[end:]...)...)
			classes = append(classes, "replace-"+cl)
		case 6, 7: // delete a token or a few bytes
			toks, _ := hclsyntax.LexConfig(out, "", hcl.InitialPos)
			if len(toks) > 1 && r.Chance(2, 3) {
				t := toks[r.Intn(len(toks)-1)]
				s, e := t.Range.Start.Byte, t.Range.End.Byte
				if s >= 0 && e <= len(out) && s <= e {
					out = append(out[:s], out[e:]...)
					classes = append(classes, "delete-"+lib.TyName(t.Type))
					break
				}
			}
			end := pos + 1 + r.Intn(4)
			if end > len(out) {
				end = len(out)
			}
			out = append(out[:pos], out[end:]...)
			classes = append(classes, "delete-bytes")
		case 8: // truncate
			out = out[:pos]
			classes = append(classes, "truncate")
		case 9: // duplicate a region
			end := pos + 1 + r.Intn(12)
			if end > len(out) {
				end = len(out)
			}
			seg := append([]byte{}, out[pos:end]...)
			out = append(out[:end], append(seg, out[end:]...)...)
			classes = append(classes, "duplicate")
		case 10: // swap two adjacent tokens
			toks, _ := hclsyntax.LexConfig(out, "", hcl.InitialPos)
			if len(toks) > 2 {
				i := r.Intn(len(toks) - 2)
				a, b := toks[i], toks[i+1]
				if a.Range.End.Byte <= b.Range.Start.Byte && b.Range.End.Byte <= len(out) {
					var nb []byte
					nb = append(nb, out[:a.Range.Start.Byte]...)
					nb = append(nb, b.Bytes...)
					nb = append(nb, out[a.Range.End.Byte:b.Range.Start.Byte]...)
					nb = append(nb, a.Bytes...)
					nb = append(nb, out[b.Range.End.Byte:]...)
					out = nb
					classes = append(classes, "swap-tokens")
				}
			}
		default: // flip one byte
			if pos < len(out) {
				out[pos] = byte(r.Intn(256))
				classes = append(classes, "flip-byte")
			}
		}
	}
	return out, classes
}

// nest builds deeply nested inputs (recovery and recursion depth).
func nest(r *lib.Rand, depth int) string {
	open, cl := "(", ")"
	switch r.Intn(7) {
	case 0:
		open, cl = "[", "]"
	case 1:
		open, cl = "{a=", "}"
	case 2:
		open, cl = "\"${", "}\""
	case 3:
		open, cl = "f(", ")"
	case 4:
		open, cl = "b {\n", "}\n"
	case 5:
		open, cl = "[for x in ", ": x]"
	}
	n := 1 + r.Intn(depth)
	s := strings.Repeat(open, n) + "1"
	switch r.Intn(3) {
	case 0:
		s += strings.Repeat(cl, n)
	case 1:
		s += strings.Repeat(cl, r.Intn(n+1))
	}
	if open != "b {\n" && r.Chance(1, 2) {
		s = "x = " + s + "\n"
	}
	return s
}
