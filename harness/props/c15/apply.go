package c15

import (
	"fmt"
	"reflect"
	"sort"

	"github.com/hashicorp/hcl/v2"
	"github.com/hashicorp/hcl/v2/hclsyntax"
	"github.com/zclconf/go-cty/cty"
	"github.com/zclconf/go-cty/cty/function"

	"hx/lib"
)

var schemaNames = []string{"a", "b", "name", "count", "x-y", "for", "if", "in", "enabled", "k1", "k2", "list", "cfg", "block", "resource", "service", "dynamic", "//", "", "é", "content", "labels", "for_each"}

// harvest collects the attribute and block names visible in a body, so that random schemas mostly match.
func harvest(b hcl.Body) (names []string) {
	switch x := b.(type) {
	case *hclsyntax.Body:
		if x == nil {
			return nil
		}
		for n := range x.Attributes {
			names = append(names, n)
		}
		for _, blk := range x.Blocks {
			if blk != nil {
				names = append(names, blk.Type)
			}
		}
	default:
		attrs, _ := b.JustAttributes()
		for n := range attrs {
			names = append(names, n)
		}
	}
	sort.Strings(names)
	return names
}

func randomSchema(r *lib.Rand, pool []string) *hcl.BodySchema {
	if r.Chance(1, 15) {
		return &hcl.BodySchema{}
	}
	s := &hcl.BodySchema{}
	pick := func() string {
		if len(pool) > 0 && r.Chance(3, 4) {
			return pool[r.Intn(len(pool))]
		}
		return r.Pick(schemaNames)
	}
	for i := r.Intn(5); i > 0; i-- {
		s.Attributes = append(s.Attributes, hcl.AttributeSchema{Name: pick(), Required: r.Chance(1, 3)})
	}
	for i := r.Intn(4); i > 0; i-- {
		bs := hcl.BlockHeaderSchema{Type: pick()}
		for k := r.Intn(4); k > 0; k-- {
			bs.LabelNames = append(bs.LabelNames, fmt.Sprintf("l%d", k))
		}
		s.Blocks = append(s.Blocks, bs)
	}
	return s
}

func schemaText(s *hcl.BodySchema) string {
	out := "attrs:"
	for _, a := range s.Attributes {
		out += fmt.Sprintf(" %q/%v", a.Name, a.Required)
	}
	out += " blocks:"
	for _, b := range s.Blocks {
		out += fmt.Sprintf(" %q/%d", b.Type, len(b.LabelNames))
	}
	return out
}

// applySchemas applies random schemas to a (possibly partial) body: panic-free, no hang, content
// non-nil, diagnostics well-formed with ranges inside the input. Content's diagnostics may come in map
// order, so nothing is compared between calls.
func (rn *runner) applySchemas(r *lib.Rand, b hcl.Body, syntax string, depth int) {
	if b == nil || depth > 3 {
		return
	}
	pool := []string{}
	if !rn.call("harvest:"+syntax, func() { pool = harvest(b) }) {
		return
	}
	for round := 0; round < 2; round++ {
		schema := randomSchema(r, pool)
		var content *hcl.BodyContent
		var remain hcl.Body
		var diags hcl.Diagnostics
		entry := "content:" + syntax
		if !rn.call(entry, func() { content, diags = b.Content(schema) }) {
			rn.cx.Res.Notes = appendNote(rn.cx.Res.Notes, "schema of the failing Content call: "+schemaText(schema))
			return
		}
		rn.checkDiags(entry, diags)
		if content == nil {
			rn.fail("nil-result:"+entry, "Content returned nil ("+schemaText(schema)+")", diagText(diags))
			return
		}
		entry = "partial-content:" + syntax
		if !rn.call(entry, func() { content, remain, diags = b.PartialContent(schema) }) {
			rn.cx.Res.Notes = appendNote(rn.cx.Res.Notes, "schema of the failing PartialContent call: "+schemaText(schema))
			return
		}
		rn.checkDiags(entry, diags)
		if content == nil || remain == nil {
			rn.fail("nil-result:"+entry, "PartialContent returned a nil content or remaining body ("+schemaText(schema)+")", diagText(diags))
			return
		}
		rn.cx.Res.Count("schema-applied:" + syntax)
		if !rn.call("content-inspect:"+syntax, func() {
			for name, a := range content.Attributes {
				if a == nil || a.Expr == nil {
					panic("nil attribute or expression for " + name)
				}
				_ = a.Expr.Range()
				_ = a.Expr.Variables()
			}
			_ = content.MissingItemRange
			_ = b.MissingItemRange()
		}) {
			return
		}
		// the remaining body is a body too
		var d2, d3 hcl.Diagnostics
		entry = "remain:" + syntax
		if rn.call(entry, func() {
			_, d2 = remain.JustAttributes()
			_, d3 = remain.Content(&hcl.BodySchema{})
		}) {
			rn.checkDiags(entry, d2)
			rn.checkDiags(entry, d3)
		}
		for i, blk := range content.Blocks {
			if i >= 4 {
				break
			}
			if blk == nil || blk.Body == nil {
				rn.fail("nil-result:"+entry+":block", "a block of the returned content is nil or has a nil body", "")
				return
			}
			r := blk.DefRange
			if !rangeInBounds(&r, rn.n) {
				rn.fail("diag-malformed:"+entry+":block-range", fmt.Sprintf("block DefRange %d..%d outside the input of length %d", r.Start.Byte, r.End.Byte, rn.n), "")
				return
			}
			rn.applySchemas(rn.forkFor(r.Start.Byte), blk.Body, syntax, depth+1)
		}
	}
	var jd hcl.Diagnostics
	entry := "just-attributes:" + syntax
	if rn.call(entry, func() { _, jd = b.JustAttributes() }) {
		rn.checkDiags(entry, jd)
	}
}

func appendNote(notes []string, n string) []string {
	if len(notes) < 12 {
		return append(notes, n)
	}
	return notes
}

// forkFor derives a deterministic stream for a nested body (the whole schema / scope choice is a function
// of the input bytes, so that a failure replays from the input alone).
func (rn *runner) forkFor(salt int) *lib.Rand {
	return lib.NewRand(uint64(rn.n)*1000003 + uint64(salt)*7919 + 17)
}

// ---------------------------------------------------------------------------
// evaluation scopes

var capsuleVal = cty.CapsuleVal(cty.Capsule("thing", reflect.TypeOf(0)), new(int))

func scopeValues() map[string]cty.Value {
	obj := cty.ObjectVal(map[string]cty.Value{
		"a": cty.StringVal("x"), "b": cty.NumberIntVal(2), "key": cty.True, "k1": cty.ListVal([]cty.Value{cty.StringVal("p"), cty.StringVal("q")}),
		"for": cty.NullVal(cty.String), "x-y": cty.TupleVal([]cty.Value{cty.NumberIntVal(1), cty.StringVal("s")}), "name": cty.StringVal("n"),
		"if": cty.MapVal(map[string]cty.Value{"a": cty.NumberIntVal(1)}), "in": cty.UnknownVal(cty.String), "null": cty.DynamicVal, "true": cty.False,
	})
	return map[string]cty.Value{
		"str":   cty.StringVal("hello é"),
		"num":   cty.NumberFloatVal(1.5),
		"int":   cty.NumberIntVal(3),
		"zero":  cty.Zero,
		"big":   cty.MustParseNumberVal("12345678901234567890123"),
		"t":     cty.True,
		"nullv": cty.NullVal(cty.DynamicPseudoType),
		"nstr":  cty.NullVal(cty.String),
		"unk":   cty.DynamicVal,
		"ustr":  cty.UnknownVal(cty.String),
		"ulist": cty.UnknownVal(cty.List(cty.String)),
		"unum":  cty.UnknownVal(cty.Number).RefineNotNull(),
		"list":  cty.ListVal([]cty.Value{cty.StringVal("a"), cty.StringVal("b"), cty.StringVal("c")}),
		"elist": cty.ListValEmpty(cty.Number),
		"nums":  cty.ListVal([]cty.Value{cty.NumberIntVal(1), cty.NumberIntVal(2)}),
		"set":   cty.SetVal([]cty.Value{cty.StringVal("a"), cty.StringVal("b")}),
		"tup":   cty.TupleVal([]cty.Value{cty.StringVal("a"), cty.NumberIntVal(1), obj}),
		"etup":  cty.EmptyTupleVal,
		"mapv":  cty.MapVal(map[string]cty.Value{"a": cty.StringVal("1"), "b": cty.StringVal("2")}),
		"obj":   obj,
		"eobj":  cty.EmptyObjectVal,
		"objs":  cty.ListVal([]cty.Value{obj, obj}),
		"mark":  cty.StringVal("secret").Mark("sensitive"),
		"mlist": cty.ListVal([]cty.Value{cty.StringVal("a").Mark("m")}),
		"mobj":  obj.Mark("whole"),
		"caps":  capsuleVal,
	}
}

var scopeKinds = func() []string {
	var ks []string
	for k := range scopeValues() {
		ks = append(ks, k)
	}
	sort.Strings(ks)
	return ks
}()

var scopeFunctions = map[string]function.Function{
	"upper": function.New(&function.Spec{
		Params: []function.Parameter{{Name: "s", Type: cty.String}},
		Type:   function.StaticReturnType(cty.String),
		Impl: func(args []cty.Value, _ cty.Type) (cty.Value, error) {
			return cty.StringVal("U" + args[0].AsString()), nil
		},
	}),
	"min": function.New(&function.Spec{
		VarParam: &function.Parameter{Name: "n", Type: cty.Number, AllowUnknown: true, AllowMarked: true},
		Type:     function.StaticReturnType(cty.Number),
		Impl: func(args []cty.Value, _ cty.Type) (cty.Value, error) {
			if len(args) == 0 {
				return cty.NilVal, fmt.Errorf("at least one argument is required")
			}
			return args[0], nil
		},
	}),
	"f": function.New(&function.Spec{
		VarParam: &function.Parameter{Name: "v", Type: cty.DynamicPseudoType, AllowNull: true, AllowUnknown: true, AllowDynamicType: true, AllowMarked: true},
		Type:     function.StaticReturnType(cty.DynamicPseudoType),
		Impl: func(args []cty.Value, _ cty.Type) (cty.Value, error) {
			if len(args) == 0 {
				return cty.NullVal(cty.DynamicPseudoType), nil
			}
			return args[len(args)-1], nil
		},
	}),
	"ns::fn": function.New(&function.Spec{
		Params: []function.Parameter{{Name: "v", Type: cty.DynamicPseudoType, AllowNull: true}},
		Type:   function.StaticReturnType(cty.Bool),
		Impl:   func(args []cty.Value, _ cty.Type) (cty.Value, error) { return cty.True, nil },
	}),
	// functions that blame one of their arguments: an index into the argument list as the function saw it, which
	// after a `...` expansion is not the list as written (an empty expansion leaves fewer arguments than were written)
	"first": function.New(&function.Spec{
		VarParam: &function.Parameter{Name: "v", Type: cty.DynamicPseudoType, AllowNull: true, AllowUnknown: true, AllowDynamicType: true, AllowMarked: true},
		Type:     function.StaticReturnType(cty.DynamicPseudoType),
		Impl: func(args []cty.Value, _ cty.Type) (cty.Value, error) {
			if len(args) == 0 {
				return cty.NilVal, function.NewArgErrorf(0, "at least one value is required")
			}
			return args[0], nil
		},
	}),
	"firstn": function.New(&function.Spec{
		Params:   []function.Parameter{{Name: "n", Type: cty.DynamicPseudoType, AllowNull: true, AllowUnknown: true, AllowDynamicType: true, AllowMarked: true}},
		VarParam: &function.Parameter{Name: "v", Type: cty.DynamicPseudoType, AllowNull: true, AllowUnknown: true, AllowDynamicType: true, AllowMarked: true},
		Type:     function.StaticReturnType(cty.DynamicPseudoType),
		Impl: func(args []cty.Value, _ cty.Type) (cty.Value, error) {
			if len(args) < 2 {
				return cty.NilVal, function.NewArgErrorf(1, "at least one value is required after the first")
			}
			return args[1], nil
		},
	}),
	"blame": function.New(&function.Spec{
		VarParam: &function.Parameter{Name: "v", Type: cty.DynamicPseudoType, AllowNull: true, AllowUnknown: true, AllowDynamicType: true, AllowMarked: true},
		Type:     function.StaticReturnType(cty.DynamicPseudoType),
		Impl: func(args []cty.Value, _ cty.Type) (cty.Value, error) {
			// blames the last argument it received, or one past the end when it received none
			i := len(args) - 1
			if i < 0 {
				i = 0
			}
			return cty.NilVal, function.NewArgErrorf(i, "blamed")
		},
	}),
	"fail": function.New(&function.Spec{
		Params: []function.Parameter{},
		Type:   function.StaticReturnType(cty.String),
		Impl:   func(args []cty.Value, _ cty.Type) (cty.Value, error) { return cty.NilVal, fmt.Errorf("always fails") },
	}),
}

// randomScope binds the names an expression refers to (plus the generators' usual names) to values of
// assorted types. It returns nil sometimes: a nil context is a legal scope.
func randomScope(r *lib.Rand, refs []string) *hcl.EvalContext {
	switch r.Intn(12) {
	case 0:
		return nil
	case 1:
		return &hcl.EvalContext{}
	}
	vals := scopeValues()
	vars := map[string]cty.Value{}
	names := append([]string{}, refs...)
	names = append(names, lib.DefaultVars...)
	names = append(names, "tv", "tk", "fv", "fk", "hv", "each", "x", "y", "z", "n", "c", "l", "m", "name")
	for _, n := range names {
		if r.Chance(1, 6) {
			continue // leave some names unbound
		}
		vars[n] = vals[scopeKinds[r.Intn(len(scopeKinds))]]
	}
	ctx := &hcl.EvalContext{Variables: vars}
	if !r.Chance(1, 8) {
		ctx.Functions = scopeFunctions
	}
	if r.Chance(1, 4) {
		child := ctx.NewChild()
		if r.Chance(1, 2) {
			child.Variables = map[string]cty.Value{"a": vals["obj"], "each": vals["tup"]}
		}
		return child
	}
	return ctx
}

// evaluate evaluates one expression of an error-free parse in random scopes.
func (rn *runner) evaluate(r *lib.Rand, e hcl.Expression, syntax string) {
	if e == nil {
		return
	}
	var refs []string
	entry := "variables:" + syntax
	if !rn.call(entry, func() {
		for _, t := range e.Variables() {
			if len(t) == 0 {
				panic("Variables() returned an empty traversal")
			}
			refs = append(refs, t.RootName())
		}
	}) {
		return
	}
	entry = "eval:" + syntax
	for round := 0; round < 2; round++ {
		ctx := randomScope(r, refs)
		var v cty.Value
		var diags hcl.Diagnostics
		if !rn.call(entry, func() { v, diags = e.Value(ctx) }) {
			return
		}
		rn.cx.Res.Count("evaluated:" + syntax)
		rn.checkDiags(entry, diags)
		if v == cty.NilVal {
			rn.cx.Res.Count("evaluated-to-nilval:" + syntax) // not part of the property; made visible only
		}
		if diags.HasErrors() {
			rn.cx.Res.Count("evaluated-with-errors:" + syntax)
		}
	}
}

// evaluateBody evaluates every attribute expression of an error-free native body, at all depths.
func (rn *runner) evaluateBody(r *lib.Rand, b *hclsyntax.Body, depth int) {
	if b == nil || depth > 4 {
		return
	}
	names := make([]string, 0, len(b.Attributes))
	for n := range b.Attributes {
		names = append(names, n)
	}
	sort.Strings(names)
	for _, n := range names {
		rn.evaluate(r, b.Attributes[n].Expr, "native")
	}
	for _, blk := range b.Blocks {
		rn.evaluateBody(r, blk.Body, depth+1)
	}
}
