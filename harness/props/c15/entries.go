package c15

import (
	"bytes"
	"fmt"
	"sort"
	"strconv"
	"strings"

	"github.com/hashicorp/hcl/v2"
	"github.com/hashicorp/hcl/v2/hclsyntax"
	"github.com/hashicorp/hcl/v2/hclwrite"
	hcljson "github.com/hashicorp/hcl/v2/json"

	"hx/lib"
)

// ---------------------------------------------------------------------------
// inspection of native syntax trees

// astReport says what a returned tree looks like: structural problems make the tree itself a violation
// ("non-nil partial result"); markers say the tree is unusable and so demands an error diagnostic.
type astReport struct {
	structural []string
	markers    map[string]bool
	ranges     []string
}

func newReport() *astReport { return &astReport{markers: map[string]bool{}} }

func (rp *astReport) visitExpr(e hclsyntax.Expression) {
	if e == nil {
		rp.structural = append(rp.structural, "nil-expression")
		return
	}
	hclsyntax.VisitAll(e, func(n hclsyntax.Node) hcl.Diagnostics {
		if n == nil {
			rp.structural = append(rp.structural, "nil-node")
			return nil
		}
		switch x := n.(type) {
		case *hclsyntax.ExprSyntaxError:
			rp.markers["ExprSyntaxError"] = true
		case *hclsyntax.LiteralValueExpr:
			if !x.Val.IsKnown() {
				rp.markers["placeholder-literal"] = true
			}
		case *hclsyntax.ScopeTraversalExpr:
			rp.traversal(x.Traversal)
		case *hclsyntax.RelativeTraversalExpr:
			rp.traversal(x.Traversal)
		case hclsyntax.Attributes, hclsyntax.Blocks:
			return nil // their Range() picks an arbitrary member
		}
		rp.ranges = append(rp.ranges, string(appendRange(append([]byte(nodeKind(n)), '@'), n.Range())))
		return nil
	})
}

func nodeKind(n hclsyntax.Node) string {
	switch n.(type) {
	case *hclsyntax.LiteralValueExpr:
		return "lit"
	case *hclsyntax.ScopeTraversalExpr:
		return "scope"
	case *hclsyntax.TemplateExpr:
		return "tmpl"
	case *hclsyntax.BinaryOpExpr:
		return "bin"
	case *hclsyntax.FunctionCallExpr:
		return "call"
	case *hclsyntax.TupleConsExpr:
		return "tuple"
	case *hclsyntax.ObjectConsExpr:
		return "object"
	case *hclsyntax.ObjectConsKeyExpr:
		return "key"
	case *hclsyntax.ParenthesesExpr:
		return "paren"
	}
	return fmt.Sprintf("%T", n)
}

func (rp *astReport) traversal(t hcl.Traversal) {
	for _, st := range t {
		if ix, ok := st.(hcl.TraverseIndex); ok && !ix.Key.IsKnown() {
			rp.markers["placeholder-index"] = true
		}
	}
}

func (rp *astReport) visitBody(b *hclsyntax.Body, depth int) {
	if b == nil {
		rp.structural = append(rp.structural, "nil-body")
		return
	}
	r := b.SrcRange
	rp.ranges = append(rp.ranges, fmt.Sprintf("body@%d-%d", r.Start.Byte, r.End.Byte))
	for name, a := range b.Attributes {
		if a == nil {
			rp.structural = append(rp.structural, "nil-attribute")
			continue
		}
		rp.ranges = append(rp.ranges, fmt.Sprintf("attr %s@%d-%d,%d-%d,%d-%d", name, a.SrcRange.Start.Byte, a.SrcRange.End.Byte, a.NameRange.Start.Byte, a.NameRange.End.Byte, a.EqualsRange.Start.Byte, a.EqualsRange.End.Byte))
		rp.visitExpr(a.Expr)
	}
	for _, blk := range b.Blocks {
		if blk == nil {
			rp.structural = append(rp.structural, "nil-block")
			continue
		}
		if blk.OpenBraceRange == blk.TypeRange && blk.CloseBraceRange == blk.TypeRange {
			rp.markers["placeholder-block"] = true
		}
		rp.ranges = append(rp.ranges, fmt.Sprintf("block %s@%d-%d,%d-%d,%d-%d,%v", blk.Type, blk.TypeRange.Start.Byte, blk.TypeRange.End.Byte, blk.OpenBraceRange.Start.Byte, blk.OpenBraceRange.End.Byte, blk.CloseBraceRange.Start.Byte, blk.CloseBraceRange.End.Byte, blk.LabelRanges))
		if len(blk.Labels) != len(blk.LabelRanges) {
			rp.structural = append(rp.structural, "label-ranges-mismatch")
		}
		rp.visitBody(blk.Body, depth+1)
	}
}

func (rp *astReport) rangeSig() string {
	sort.Strings(rp.ranges)
	return strings.Join(rp.ranges, ";")
}

func markerList(m map[string]bool) []string {
	var out []string
	for k := range m {
		out = append(out, k)
	}
	sort.Strings(out)
	return out
}

// judge applies "structurally sound" and "unusable ⇒ at least one error diagnostic" to a report.
func (rn *runner) judge(entry string, rp *astReport, diags hcl.Diagnostics) bool {
	if len(rp.structural) > 0 {
		sort.Strings(rp.structural)
		rn.fail("nil-result:"+entry+":"+rp.structural[0], "the returned partial syntax tree contains "+strings.Join(rp.structural, ", "), diagText(diags))
		return false
	}
	if !diags.HasErrors() {
		for _, m := range markerList(rp.markers) {
			rn.fail("unusable-without-error:"+entry+":"+m, "the result contains a "+m+" but no error diagnostic was returned", diagText(diags))
			return false
		}
	}
	return true
}

// ---------------------------------------------------------------------------
// native entry points

// nativeConfig checks hclsyntax.ParseConfig and returns the body when the call completed.
func (rn *runner) nativeConfig(src []byte) (body *hclsyntax.Body, errorFree bool) {
	const entry = "parse-config"
	var f1, f2 *hcl.File
	var d1, d2 hcl.Diagnostics
	if !rn.call(entry, func() { f1, d1 = hclsyntax.ParseConfig(src, "f.hcl", hcl.InitialPos) }) {
		return nil, false
	}
	if !rn.call(entry, func() { f2, d2 = hclsyntax.ParseConfig(src, "f.hcl", hcl.InitialPos) }) {
		return nil, false
	}
	rn.checkDiags(entry, d1)
	if f1 == nil || f1.Body == nil {
		rn.fail("nil-result:"+entry+":file", "ParseConfig returned a nil file or body", diagText(d1))
		return nil, false
	}
	b1, ok := f1.Body.(*hclsyntax.Body)
	if !ok || b1 == nil {
		rn.fail("nil-result:"+entry+":body-type", fmt.Sprintf("ParseConfig returned a body of type %T", f1.Body), "")
		return nil, false
	}
	if !bytes.Equal(f1.Bytes, src) {
		rn.fail("nil-result:"+entry+":bytes", "File.Bytes is not the source buffer", "")
	}
	rp1, rp2 := newReport(), newReport()
	if !rn.call("ast-walk:"+entry, func() { rp1.visitBody(b1, 0) }) {
		return nil, false
	}
	if !rn.judge(entry, rp1, d1) {
		return nil, false
	}
	if !d1.HasErrors() && b1.SrcRange.End.Byte != len(src) {
		// ParseBody gives a body it abandoned (recovery) a range ending at the offending token
		rn.fail("unusable-without-error:"+entry+":body-stops-early", fmt.Sprintf("no error diagnostic, but the root body's range ends at byte %d of %d", b1.SrcRange.End.Byte, len(src)), "")
	}
	if f2 != nil && f2.Body != nil {
		if b2, ok := f2.Body.(*hclsyntax.Body); ok && b2 != nil {
			okWalk := rn.call("ast-walk:"+entry, func() { rp2.visitBody(b2, 0) })
			if okWalk && len(rp2.structural) == 0 {
				var s1, s2 string
				if rn.huge {
					rn.same(entry, "ranges", rp1.rangeSig(), rp2.rangeSig())
				} else if rn.call("ast-dump:"+entry, func() { s1, s2 = lib.DumpBody(b1, false), lib.DumpBody(b2, false) }) {
					if rn.same(entry, "result", s1, s2) {
						rn.same(entry, "ranges", rp1.rangeSig(), rp2.rangeSig())
					}
				}
			}
		}
	} else {
		rn.fail("nondeterministic:"+entry+":result", "the second call returned a nil file", "")
	}
	rn.same(entry, "diagnostics", diagSig(d1), diagSig(d2))
	return b1, !d1.HasErrors()
}

// nativeExpr checks ParseExpression or ParseTemplate.
func (rn *runner) nativeExpr(entry string, src []byte) (hclsyntax.Expression, bool) {
	parse := hclsyntax.ParseExpression
	if entry == "parse-template" {
		parse = hclsyntax.ParseTemplate
	}
	var e1, e2 hclsyntax.Expression
	var d1, d2 hcl.Diagnostics
	if !rn.call(entry, func() { e1, d1 = parse(src, "f.hcl", hcl.InitialPos) }) {
		return nil, false
	}
	if !rn.call(entry, func() { e2, d2 = parse(src, "f.hcl", hcl.InitialPos) }) {
		return nil, false
	}
	rn.checkDiags(entry, d1)
	if e1 == nil {
		rn.fail("nil-result:"+entry+":expression", "a nil expression was returned", diagText(d1))
		return nil, false
	}
	rp1, rp2 := newReport(), newReport()
	if !rn.call("ast-walk:"+entry, func() { rp1.visitExpr(e1) }) {
		return nil, false
	}
	if !rn.judge(entry, rp1, d1) {
		return nil, false
	}
	if e2 == nil {
		rn.fail("nondeterministic:"+entry+":result", "the second call returned a nil expression", "")
	} else if rn.call("ast-walk:"+entry, func() { rp2.visitExpr(e2) }) && len(rp2.structural) == 0 {
		var s1, s2 string
		if rn.huge {
			rn.same(entry, "ranges", rp1.rangeSig(), rp2.rangeSig())
		} else if rn.call("ast-dump:"+entry, func() { s1, s2 = lib.DumpExpr(e1, false), lib.DumpExpr(e2, false) }) {
			if rn.same(entry, "result", s1, s2) {
				rn.same(entry, "ranges", rp1.rangeSig(), rp2.rangeSig())
			}
		}
	}
	rn.same(entry, "diagnostics", diagSig(d1), diagSig(d2))
	return e1, !d1.HasErrors()
}

func traversalSig(t hcl.Traversal) string {
	var sb strings.Builder
	sb.WriteString(lib.DumpTraversal(t))
	for _, st := range t {
		r := st.SourceRange()
		fmt.Fprintf(&sb, "@%d:%d:%d-%d:%d:%d", r.Start.Byte, r.Start.Line, r.Start.Column, r.End.Byte, r.End.Line, r.End.Column)
	}
	return sb.String()
}

func (rn *runner) nativeTraversal(entry string, src []byte) {
	parse := hclsyntax.ParseTraversalAbs
	if entry == "parse-traversal-partial" {
		parse = hclsyntax.ParseTraversalPartial
	}
	var t1, t2 hcl.Traversal
	var d1, d2 hcl.Diagnostics
	if !rn.call(entry, func() { t1, d1 = parse(src, "f.hcl", hcl.InitialPos) }) {
		return
	}
	if !rn.call(entry, func() { t2, d2 = parse(src, "f.hcl", hcl.InitialPos) }) {
		return
	}
	rn.checkDiags(entry, d1)
	for _, st := range t1 {
		if st == nil {
			rn.fail("nil-result:"+entry+":step", "the traversal contains a nil step", diagText(d1))
			return
		}
	}
	if !d1.HasErrors() {
		// an error-free traversal is usable: it starts at a root name and has no placeholder keys
		if len(t1) == 0 {
			rn.fail("unusable-without-error:"+entry+":empty", "an empty traversal was returned without an error diagnostic", "")
			return
		}
		if _, ok := t1[0].(hcl.TraverseRoot); !ok {
			rn.fail("unusable-without-error:"+entry+":no-root", fmt.Sprintf("the traversal starts with %T and there is no error diagnostic", t1[0]), "")
			return
		}
		for _, st := range t1 {
			if ix, ok := st.(hcl.TraverseIndex); ok && !ix.Key.IsKnown() {
				rn.fail("unusable-without-error:"+entry+":placeholder-index", "an unknown index key without an error diagnostic", "")
				return
			}
			r := st.SourceRange()
			if !rangeInBounds(&r, rn.n) {
				rn.fail("diag-malformed:"+entry+":step-range", fmt.Sprintf("traversal step range %d..%d outside the input of length %d", r.Start.Byte, r.End.Byte, rn.n), "")
				return
			}
		}
	}
	var s1, s2 string
	if rn.huge {
		// no exact dump
	} else if rn.call("ast-dump:"+entry, func() { s1, s2 = traversalSig(t1), traversalSig(t2) }) {
		rn.same(entry, "result", s1, s2)
	}
	rn.same(entry, "diagnostics", diagSig(d1), diagSig(d2))
}

var neverValidTokens = map[hclsyntax.TokenType]bool{
	hclsyntax.TokenInvalid: true, hclsyntax.TokenBadUTF8: true, hclsyntax.TokenQuotedNewline: true, hclsyntax.TokenTabs: true,
	hclsyntax.TokenBacktick: true, hclsyntax.TokenApostrophe: true, hclsyntax.TokenSemicolon: true, hclsyntax.TokenStarStar: true,
	hclsyntax.TokenBitwiseAnd: true, hclsyntax.TokenBitwiseOr: true, hclsyntax.TokenBitwiseNot: true, hclsyntax.TokenBitwiseXor: true,
}

func appendPos(b []byte, p hcl.Pos) []byte {
	b = strconv.AppendInt(b, int64(p.Byte), 10)
	b = append(b, ':')
	b = strconv.AppendInt(b, int64(p.Line), 10)
	b = append(b, ':')
	b = strconv.AppendInt(b, int64(p.Column), 10)
	return b
}

func appendRange(b []byte, r hcl.Range) []byte {
	b = appendPos(b, r.Start)
	b = append(b, '-')
	return appendPos(b, r.End)
}

func tokensSig(toks hclsyntax.Tokens) string {
	b := make([]byte, 0, 32*len(toks))
	for _, t := range toks {
		b = strconv.AppendInt(b, int64(t.Type), 10)
		b = append(b, '"')
		b = append(b, t.Bytes...)
		b = append(b, '"', '@')
		b = appendRange(b, t.Range)
		b = append(b, ';')
	}
	return string(b)
}

// lex checks one of the three scanners; it returns whether the scanner reported errors.
func (rn *runner) lex(entry string, src []byte) (lexErrors bool) {
	lexf := hclsyntax.LexConfig
	switch entry {
	case "lex-expression":
		lexf = hclsyntax.LexExpression
	case "lex-template":
		lexf = hclsyntax.LexTemplate
	}
	var t1, t2 hclsyntax.Tokens
	var d1, d2 hcl.Diagnostics
	if !rn.call(entry, func() { t1, d1 = lexf(src, "f.hcl", hcl.InitialPos) }) {
		return false
	}
	if !rn.call(entry, func() { t2, d2 = lexf(src, "f.hcl", hcl.InitialPos) }) {
		return false
	}
	rn.checkDiags(entry, d1)
	if len(t1) == 0 || t1[len(t1)-1].Type != hclsyntax.TokenEOF {
		rn.fail("nil-result:"+entry+":no-eof", "the token stream is empty or does not end with EOF", "")
		return d1.HasErrors()
	}
	if !d1.HasErrors() {
		for _, t := range t1 {
			if neverValidTokens[t.Type] {
				rn.fail("unusable-without-error:"+entry+":"+lib.TyName(t.Type), fmt.Sprintf("the token stream contains %s %q, which can never be valid, but there is no error diagnostic", lib.TyName(t.Type), t.Bytes), "")
				break
			}
		}
	}
	for _, t := range t1 {
		if !rangeInBounds(&t.Range, rn.n) {
			rn.fail("diag-malformed:"+entry+":token-range", fmt.Sprintf("token %s has bytes %d..%d, input length %d", lib.TyName(t.Type), t.Range.Start.Byte, t.Range.End.Byte, rn.n), "")
			break
		}
	}
	rn.same(entry, "result", tokensSig(t1), tokensSig(t2))
	rn.same(entry, "diagnostics", diagSig(d1), diagSig(d2))
	return d1.HasErrors()
}

// ---------------------------------------------------------------------------
// JSON entry points

func jsonAttrsSig(b hcl.Body) string {
	attrs, _ := b.JustAttributes()
	names := make([]string, 0, len(attrs))
	for n := range attrs {
		names = append(names, n)
	}
	sort.Strings(names)
	var sb strings.Builder
	for _, n := range names {
		a := attrs[n]
		if a == nil || a.Expr == nil {
			fmt.Fprintf(&sb, "%q=nil;", n)
			continue
		}
		fmt.Fprintf(&sb, "%q=%s@%d-%d;", n, hcljson.VerifDumpExpr(a.Expr), a.Range.Start.Byte, a.Range.End.Byte)
	}
	return sb.String()
}

func (rn *runner) jsonFile(src []byte) (hcl.Body, bool) {
	const entry = "json-parse"
	var f1, f2 *hcl.File
	var d1, d2 hcl.Diagnostics
	if !rn.call(entry, func() { f1, d1 = hcljson.Parse(src, "f.json") }) {
		return nil, false
	}
	if !rn.call(entry, func() { f2, d2 = hcljson.Parse(src, "f.json") }) {
		return nil, false
	}
	rn.checkDiags(entry, d1)
	if f1 == nil || f1.Body == nil {
		rn.fail("nil-result:"+entry+":file", "json.Parse returned a nil file or body", diagText(d1))
		return nil, false
	}
	// the syntax tree behind the file: a root that is not an object or array is replaced by an empty
	// object, and a tree with invalid nodes is unusable; both demand an error diagnostic
	var dump string
	if !rn.huge && rn.call("json-dump", func() { dump, _ = hcljson.VerifParseExpression(src) }) && !d1.HasErrors() {
		switch {
		case !strings.HasPrefix(dump, "(obj") && !strings.HasPrefix(dump, "(arr"):
			rn.fail("unusable-without-error:"+entry+":root-replaced", "the root value is neither object nor array (the body is a placeholder) but there is no error diagnostic", dump)
		case strings.Contains(dump, "invalid") || strings.Contains(dump, "nil"):
			rn.fail("unusable-without-error:"+entry+":invalid-node", "the syntax tree contains an invalid placeholder but there is no error diagnostic", dump)
		}
	}
	if f2 == nil || f2.Body == nil {
		rn.fail("nondeterministic:"+entry+":result", "the second call returned a nil file", "")
	} else if !rn.huge {
		var s1, s2 string
		if rn.call("just-attributes:json", func() { s1, s2 = jsonAttrsSig(f1.Body), jsonAttrsSig(f2.Body) }) {
			rn.same(entry, "result", s1, s2)
		}
	}
	rn.same(entry, "diagnostics", diagSig(d1), diagSig(d2))
	if !d1.HasErrors() {
		rn.jsonTrailing(entry, src, func(b []byte) hcl.Diagnostics { _, d := hcljson.Parse(b, "f.json"); return d })
	}
	return f1.Body, !d1.HasErrors()
}

// jsonTrailing: a text that one of the JSON entry points accepts is a complete JSON value; the same text followed
// by one more token is not a JSON text, and what follows the first value would be dropped silently, so the result
// is unusable as a whole and an error must say so — whatever else (warnings included) was said about the value.
var jsonSuffixes = []string{" ]", " {}", " true", " 0", " \"x\"", " ,", " :", "\n[1]"}

func (rn *runner) jsonTrailing(entry string, src []byte, parse func([]byte) hcl.Diagnostics) {
	if rn.huge || len(src) > 4096 {
		return
	}
	suf := jsonSuffixes[int(hash64(src)%uint64(len(jsonSuffixes)))]
	for _, sfx := range []string{suf, " ]"} {
		ext := append(append([]byte{}, src...), sfx...)
		var d hcl.Diagnostics
		if !rn.call(entry, func() { d = parse(ext) }) {
			return
		}
		rn.cx.Res.Count("json-trailing-token-checked")
		if !d.HasErrors() {
			rn.fail("unusable-without-error:"+entry+":trailing-data", "a text accepted without error, followed by one more token ("+strings.TrimSpace(sfx)+"), is accepted without error too: the trailing data is dropped silently", diagText(d))
			return
		}
	}
}

func (rn *runner) jsonExpr(src []byte) (hcl.Expression, bool) {
	const entry = "json-parse-expression"
	var e1, e2 hcl.Expression
	var d1, d2 hcl.Diagnostics
	if !rn.call(entry, func() { e1, d1 = hcljson.ParseExpression(src, "f.json") }) {
		return nil, false
	}
	if !rn.call(entry, func() { e2, d2 = hcljson.ParseExpression(src, "f.json") }) {
		return nil, false
	}
	rn.checkDiags(entry, d1)
	if e1 == nil {
		rn.fail("nil-result:"+entry+":expression", "json.ParseExpression returned a nil expression", diagText(d1))
		return nil, false
	}
	var s1, s2 string
	if rn.huge {
		rn.same(entry, "diagnostics", diagSig(d1), diagSig(d2))
		return e1, !d1.HasErrors()
	}
	if !rn.call("json-dump", func() {
		s1 = hcljson.VerifDumpExpr(e1)
		if e2 != nil {
			s2 = hcljson.VerifDumpExpr(e2)
		}
		r := e1.Range()
		s1 += fmt.Sprintf("@%d-%d", r.Start.Byte, r.End.Byte)
		if e2 != nil {
			r2 := e2.Range()
			s2 += fmt.Sprintf("@%d-%d", r2.Start.Byte, r2.End.Byte)
		}
	}) {
		return nil, false
	}
	if !d1.HasErrors() && (strings.Contains(s1, "invalid") || strings.Contains(s1, "nil") || strings.Contains(s1, "unknown")) {
		rn.fail("unusable-without-error:"+entry+":invalid-node", "the expression's syntax tree contains an invalid placeholder but there is no error diagnostic", s1)
	}
	rn.same(entry, "result", s1, s2)
	rn.same(entry, "diagnostics", diagSig(d1), diagSig(d2))
	if !d1.HasErrors() {
		rn.jsonTrailing(entry, src, func(b []byte) hcl.Diagnostics { _, d := hcljson.ParseExpression(b, "f.json"); return d })
	}
	return e1, !d1.HasErrors()
}

// ---------------------------------------------------------------------------
// writer entry points

func (rn *runner) writerParse(src []byte, nativeErrorFree, nativeDone bool) {
	const entry = "hclwrite-parse-config"
	var f1, f2 *hclwrite.File
	var d1, d2 hcl.Diagnostics
	if !rn.call(entry, func() { f1, d1 = hclwrite.ParseConfig(src, "f.hcl", hcl.InitialPos) }) {
		return
	}
	if !rn.call(entry, func() { f2, d2 = hclwrite.ParseConfig(src, "f.hcl", hcl.InitialPos) }) {
		return
	}
	rn.checkDiags(entry, d1)
	// documented: the file is nil exactly when the native parse has errors
	if f1 == nil && !d1.HasErrors() {
		rn.fail("nil-result:"+entry+":file", "a nil file was returned without an error diagnostic", diagText(d1))
		return
	}
	if f1 != nil && d1.HasErrors() {
		rn.fail("unusable-without-error:"+entry+":file-with-errors", "a file was returned together with error diagnostics (the loader documents nil)", diagText(d1))
	}
	if nativeDone && nativeErrorFree == d1.HasErrors() {
		rn.fail("inconsistent:"+entry+":vs-native", fmt.Sprintf("hclsyntax.ParseConfig error-free=%v but hclwrite.ParseConfig has errors=%v", nativeErrorFree, d1.HasErrors()), diagText(d1))
	}
	if (f1 == nil) != (f2 == nil) {
		rn.fail("nondeterministic:"+entry+":result", "one call returned a file, the other nil", "")
	} else if f1 != nil {
		var b1, b2 []byte
		if rn.call("hclwrite-bytes", func() {
			b1, b2 = f1.Bytes(), f2.Bytes()
			if f1.Body() == nil {
				panic("File.Body() is nil")
			}
			_ = f1.Body().Attributes()
			_ = f1.Body().Blocks()
			_ = f1.BuildTokens(nil)
		}) {
			rn.same(entry, "result", string(b1), string(b2))
		}
	}
	rn.same(entry, "diagnostics", diagSig(d1), diagSig(d2))
}

func (rn *runner) format(src []byte) {
	const entry = "hclwrite-format"
	var o1, o2 []byte
	if !rn.call(entry, func() { o1 = hclwrite.Format(src) }) {
		return
	}
	if !rn.call(entry, func() { o2 = hclwrite.Format(src) }) {
		return
	}
	rn.same(entry, "result", string(o1), string(o2))
}
