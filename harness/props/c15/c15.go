// Package c15 is the direct oracle for property C15: every front end is total, deterministic and
// reports well-formed diagnostics; schemas and evaluation on the results are panic-free.
package c15

import (
	"encoding/hex"
	"encoding/json"
	"hash/fnv"
	"os"
	"runtime/debug"
	"sort"
	"strconv"
	"strings"
	"time"
	"unicode/utf8"

	"github.com/hashicorp/hcl/v2"

	"hx/lib"
)

func init() { lib.Register("C15", runC15) }

func hash64(b []byte) uint64 {
	h := fnv.New64a()
	h.Write(b)
	return h.Sum64()
}

// seedStream derives the run's random stream from the seed through a hash. lib.NewRand(seed) puts the
// seed straight into a splitmix64 counter, so the stream of seed k+1 is the stream of seed k shifted by one
// draw (and Fork() inherits that): consecutive seeds would re-run almost the same cases. cx.R is consumed
// once so that everything still derives from it.
func seedStream(cx *lib.Ctx, prop string) *lib.Rand {
	return lib.NewRand(hash64([]byte(prop + "/" + strconv.FormatUint(cx.Seed, 10) + "/" + strconv.FormatUint(cx.R.U64(), 10))))
}

// runAll feeds one byte string to every entry point and applies schemas / evaluation to the results.
// All random choices made here derive from the input bytes, so a failure replays from the input alone.
func (rn *runner) runAll(src []byte, origin string) (sawErrors bool) {
	rn.doc = docOf(src)
	rn.n = len(src)
	// a literal such as 1e999999 is accepted by the parser, but printing its exact value (the harness's
	// dumps, or a template that interpolates it) costs time and memory exponential in the input length;
	// such inputs keep every check except exact value dumps and evaluation
	rn.badUTF8 = !utf8.Valid(src)
	rn.huge = hugeExponent.Match(src)
	if rn.huge {
		rn.cx.Res.Count("input-with-huge-exponent")
	}
	r := lib.NewRand(hash64(src))
	res := rn.cx.Res

	body, cfgOK := rn.nativeConfig(src)
	expr, exprOK := rn.nativeExpr("parse-expression", src)
	tmpl, tmplOK := rn.nativeExpr("parse-template", src)
	rn.nativeTraversal("parse-traversal-abs", src)
	rn.nativeTraversal("parse-traversal-partial", src)
	lexErr := rn.lex("lex-config", src)
	rn.lex("lex-expression", src)
	rn.lex("lex-template", src)
	if lexErr && cfgOK {
		rn.fail("unusable-without-error:parse-config:lexer-errors-dropped", "LexConfig reports errors for this input but ParseConfig returned no error diagnostic", "")
	}
	jbody, jsonOK := rn.jsonFile(src)
	jexpr, jexprOK := rn.jsonExpr(src)
	rn.writerParse(src, cfgOK, body != nil)
	rn.format(src)

	for name, ok := range map[string]bool{"config": cfgOK, "expression": exprOK, "template": tmplOK, "json": jsonOK, "json-expression": jexprOK} {
		if ok {
			res.Count("error-free:" + name)
		}
	}
	// an input exercises an error path when the front end of its own syntax rejects it
	switch {
	case strings.HasPrefix(origin, "config"):
		sawErrors = !cfgOK
	case strings.HasPrefix(origin, "expression"), strings.HasPrefix(origin, "traversal"):
		sawErrors = !exprOK
	case strings.HasPrefix(origin, "template"):
		sawErrors = !tmplOK
	case strings.HasPrefix(origin, "json"):
		sawErrors = !jsonOK && !jexprOK
	default:
		sawErrors = !cfgOK && !exprOK && !jexprOK
	}

	if body != nil {
		rn.applySchemas(r, body, "native", 0)
		if cfgOK && !rn.huge {
			rn.evaluateBody(r, body, 0)
		}
	}
	if exprOK && !rn.huge {
		rn.evaluate(r, expr, "native-expression")
	}
	if tmplOK && !rn.huge {
		rn.evaluate(r, tmpl, "native-template")
	}
	if jbody != nil {
		rn.applySchemas(r, jbody, "json", 0)
		if jsonOK && !rn.huge {
			var exprs []hcl.Expression
			rn.call("just-attributes:json", func() {
				attrs, _ := jbody.JustAttributes()
				names := make([]string, 0, len(attrs))
				for n := range attrs {
					names = append(names, n)
				}
				sort.Strings(names)
				for i, n := range names {
					if i < 6 && attrs[n] != nil {
						exprs = append(exprs, attrs[n].Expr)
					}
				}
			})
			for _, e := range exprs {
				rn.evaluate(r, e, "json")
			}
		}
	}
	if jexprOK && !rn.huge {
		rn.evaluate(r, jexpr, "json-expression")
	}
	return sawErrors
}

func (rn *runner) one(src []byte, origin string) {
	saw := rn.runAll(src, origin)
	rn.cx.Res.Case("in:"+strconv.FormatUint(hash64(src), 36)+":"+strconv.Itoa(len(src)), saw)
	rn.cx.Res.Count("input:" + origin)
	if saw {
		rn.cx.Res.Count("input-with-errors")
	}
}

// handInputs are small inputs aimed at recovery paths; every prefix of each is run too.
var handInputs = []string{
	"a = first([]...)", "a = firstn(\"a\", []...)", "a = blame([]...)", "a = blame(1, [2, 3]...)", "a = blame(1, []...)", "a = \"${first([]...)}\"", "a = first(l...)", "a = firstn(x, l...)", "a = [for v in [[], [1]] : first(v...)]",
	"{\"a\": \"x\xff\"}", "\"x\xff\"", "{\"a\xff\": 1}", "[\"\xc3\", {\"k\": \"\xe2\x82\"}]", "{\"a\": \"${x}\xff\"}",
	"", "a", "a =", "a = 1", "a = 1\n", "a {", "a {}", "a { 1 }", "a { b }", "a { b c }", "a { \"x\" }", "a { b = }", "a { b = 1 c }", "a { b = 1\n", "a { b = 1 } c", "a { b {} }", "a { b = 1 }", "a { b = 1, c = 2 }", "a { b = 1\n}", "a \"l\" {", "a \"${x}\" {}", "a \"l", "a = = 1", "a b c", "a {\nb {\n", "}", "a = }", "a = )", "a = ]",
	"a = (", "a = (1", "a = (1,", "a = [", "a = [1", "a = [1,", "a = [1 2]", "a = {", "a = {b", "a = {b =", "a = {b = 1", "a = {b = 1 c = 2}", "a = {b = 1,, }", "a = {(b) = 1}", "a = {b: 1}",
	"a = f(", "a = f(1", "a = f(1,", "a = f(1 2)", "a = f(1...)", "a = f(1..., 2)", "a = f(x...", "a = ns::", "a = ns::f", "a = ns::f(", "a = ns:::f()", "a = ns::1()", "a = f::(1)",
	"a = [for", "a = [for x", "a = [for x in", "a = [for x in y", "a = [for x in y :", "a = [for x in y : x", "a = [for x, in y : x]", "a = [for x in y : x => x]", "a = [for x in y : x...]", "a = {for x in y : x}", "a = {for x in y : x => x... if}", "a = [for x in y : x if", "a = [for 1 in y : x]", "a = {for\nx in y : x => x}",
	"a = b.", "a = b.c.", "a = b.1.2", "a = b.*", "a = b.*.", "a = b.*.*", "a = b.*.1.2", "a = b[", "a = b[*", "a = b[*]", "a = b[*].", "a = b[*]]", "a = b[1", "a = b[1 2]", "a = b[\n1\n]", "a = b[*\n]", "a = b . c", "a = b.\nc",
	"a = \"", "a = \"x", "a = \"${", "a = \"${x", "a = \"${x}", "a = \"${x}\"", "a = \"${\"", "a = \"${\"}\"", "a = \"${x:y}\"", "a = \"%{", "a = \"%{if", "a = \"%{if x", "a = \"%{if x}", "a = \"%{if x}y\"", "a = \"%{else}\"", "a = \"%{endif}\"", "a = \"%{if x}%{else}%{else}%{endif}\"", "a = \"%{for}\"", "a = \"%{for x}\"", "a = \"%{for x,}\"", "a = \"%{for x in}\"", "a = \"%{for x in y}%{endif}\"", "a = \"%{for x in y}%{else}%{endfor}\"", "a = \"%{what}\"", "a = \"%{if x y}\"", "a = \"%{1}\"", "a = \"~}\"", "a = \"${~}\"", "a = \"\\", "a = \"\\u12\"", "a = \"\\U0011FFFF\"", "a = \"\\x\"", "a = \"a\nb\"", "a = \"$", "a = \"%",
	"a = <<EOT", "a = <<EOT\n", "a = <<EOT\nx", "a = <<EOT\nx\n", "a = <<EOT\nx\nEOT", "a = <<EOT\nx\nEOT\n", "a = <<-EOT\n  x\n  EOT\n", "a = <<EOT\n${\nEOT\n", "a = <<EOT\n${x\nEOT\n", "a = <<EOT\n%{if x}\nEOT\n", "a = <<EOT\n${<<EOT\nEOT\n}\nEOT\n", "a = <<\n", "a = <<-\n", "a = << EOT\n", "a = <<EOT x\nEOT\n", "a = <<EOT\nEOT x\n", "a = f(<<EOT\nEOT\n)", "a = [<<EOT\nEOT\n", "<<EOT\n",
	"a = 1 +", "a = + 1", "a = 1 + + 1", "a = !", "a = -", "a = 1 ? 2", "a = 1 ? 2 :", "a = 1 ? : 3", "a = ? 2 : 3", "a = 1 == == 2", "a = 1 & 2", "a = 1 ** 2", "a = 1; b = 2", "a = 'x'", "a = `x`", "a = 1.2.3", "a = 1e", "a = 0x10", "a = 1 .. 2",
	"a = 1 # c", "a = 1 // c", "a = 1 /* c", "a = /* c */ 1", "# only", "/*", "a = 1 /* c */ b = 2", "a = 1\r\nb = 2\r\n", "a = 1\rb = 2", "\xef\xbb\xbfa = 1", "\xef\xbb\xbf", "a = \xff", "a = \"\xff\"", "\xffa = 1", "a\x00 = 1", "a = \x00", "a = \"\x00\"", "a\t= 1", "\"a\" = 1", "1 = 2", "a.b = 1", "a = 1, b = 2", "a = 1 b = 2",
	"{", "{}", "{\"a\":1}", "{\"a\":", "{\"a\"", "{\"a\":1,}", "{\"a\":1 \"b\":2}", "{\"a\":[1,]}", "{\"a\":[1 2]}", "{\"a\":{\"b\":[{\"c\":{}}]}}", "[{\"a\":1},{\"a\":2}]", "[1]", "[", "[{]", "{\"a\":tru}", "{\"a\":nul}", "{\"a\":+1}", "{\"a\":01}", "{\"a\":1e}", "{\"a\":\"x}", "{\"a\":\"\\q\"}", "{\"a\":\"\\u12\"}", "{\"a\":\"${\"}", "{\"a\":\"${x\"}", "{\"a\":\"%{if}\"}", "{\"//\":1,\"a\":2}", "{\"a\":1,\"a\":2}", "{a:1}", "{\"a\"=1}", "\"s\"", "1", "null", "true x", "{} {}", "{}\x00", "{\"a\":\"\x01\"}", "{\"a\":\"\xff\"}",
	"a", "a.b", "a.b[0]", "a[\"k\"]", "a[*].b", "a.*.b", "a.0", "a.0.1", "a[", "a[0", "a.", "a..b", "a[b]", "a[1+1]", "a()", "1", "\"a\"", "a.b.c.d.e[0][1][\"x\"].f",
	"hello ${", "hello ${a", "hello ${a}", "hello %{", "%{if a}x", "%{if a}x%{endif}", "%{ for a in b ~}x%{~ endfor }", "%{else}", "$${a}", "$", "%", "${\"${\"${a}\"}\"}", "${a}${b}", "${~a~}", "%{if}", "%{for x in y}${x}", "%{endfor}%{endif}",
}

func runC15(cx *lib.Ctx) {
	res := cx.Res
	res.MaxPerKey = 2
	// many small parses: with the default GC target the collector and scavenger take half of the CPU time
	gcp := 400
	if v, err := strconv.Atoi(os.Getenv("HX_C15_GC")); err == nil {
		gcp = v
	}
	defer debug.SetGCPercent(debug.SetGCPercent(gcp))
	rn := &runner{cx: cx, limit: 5 * time.Second}
	if cx.Thorough() {
		rn.limit = 10 * time.Second
	}
	if ms, err := strconv.Atoi(os.Getenv("HX_C15_LIMIT_MS")); err == nil {
		rn.limit = time.Duration(ms) * time.Millisecond // for exercising the watchdog itself
	}
	go rn.watch()
	if cx.Replay != "" {
		in := lib.ReplayInput(cx.Replay)
		var d caseDoc
		src := []byte(in)
		if err := json.Unmarshal([]byte(in), &d); err == nil && d.Hex != "" {
			if b, err := hex.DecodeString(d.Hex); err == nil {
				src = b
			}
		} else if err == nil && d.Text != "" && d.Hex == "" {
			if s, err := strconv.Unquote(d.Text); err == nil {
				src = []byte(s)
			}
		}
		rn.one(src, "replay")
		res.Sample(docOf(src))
		return
	}
	res.Rule = "valid programs (generated configurations with heredocs and templates, expressions, bare templates, traversals, JSON documents in HCL's profile, deep nestings) intact and damaged by 1-3 near-valid edits (insert / replace / delete / swap / duplicate / truncate, at token boundaries, of brackets, quotes, template introducers, heredoc markers, keywords, operators, numbers, comments, invalid UTF-8, control bytes) plus a hand corpus with every prefix; every input goes to all 13 entry points twice, then random schemas and scopes (derived from the input bytes) are applied; non-trivial = the front end of the input's own syntax reported an error; distinct by input bytes"

	// ---- hand corpus and all its prefixes
	for _, s := range handInputs {
		rn.one([]byte(s), "corpus")
		if len(s) <= 48 {
			for i := 1; i < len(s); i++ {
				rn.one([]byte(s[:i]), "corpus-prefix")
			}
		}
	}

	root := seedStream(cx, "C15")
	n := cx.Scale(8000, 60000)
	for i := 0; i < n; i++ {
		r := root.Fork()
		big := cx.Thorough() && r.Chance(1, 6)
		var base string
		kind := ""
		switch r.Weighted([]int{10, 4, 3, 2, 5, 1}) {
		case 0:
			base, kind = genConfig(r, big), "config"
		case 1:
			base, kind = genExpr(r, big), "expression"
		case 2:
			base, kind = genTemplate(r), "template"
		case 3:
			base, kind = genTraversal(r), "traversal"
		case 4:
			base, kind = genJSON(r, big), "json"
		default:
			d := 40
			if cx.Thorough() {
				d = 1500
			}
			base, kind = nest(r, d), "nesting"
		}
		if i < 3 {
			res.Sample(base)
		}
		if r.Chance(1, 5) {
			rn.one([]byte(base), kind)
		}
		// several independent damages of the same program
		for k := 0; k < 3; k++ {
			var m []byte
			var classes []string
			if r.Chance(1, 4) {
				m = lib.MutateBytes(r, []byte(base))
				classes = []string{"lib-mutate"}
			} else {
				m, classes = damage(r, []byte(base))
			}
			for _, c := range classes {
				res.Count("damage:" + c)
			}
			rn.one(m, kind+"-damaged")
		}
		// every prefix of small programs
		if len(base) <= 60 && r.Chance(1, 4) {
			for p := 1; p < len(base); p++ {
				rn.one([]byte(base[:p]), kind+"-prefix")
			}
		}
		// splice of two programs
		if r.Chance(1, 10) {
			other := genConfig(r, false)
			cut1, cut2 := r.Intn(len(base)+1), r.Intn(len(other)+1)
			rn.one([]byte(base[:cut1]+other[cut2:]), "splice")
		}
	}
}
