package c15

import (
	"encoding/hex"
	"encoding/json"
	"fmt"
	"os"
	"regexp"
	"runtime/debug"
	"strings"
	"sync"
	"time"

	"github.com/hashicorp/hcl/v2"

	"hx/lib"
)

// caseDoc is the replayable description of one input (Failure.Input is its JSON text): arbitrary bytes
// travel as hex, Text is a %q rendering for the reader.
type caseDoc struct {
	Hex  string `json:"hex"`
	Text string `json:"text"`
}

func docOf(src []byte) string {
	b, _ := json.Marshal(caseDoc{Hex: hex.EncodeToString(src), Text: fmt.Sprintf("%q", lib.Trunc(string(src), 600))})
	return string(b)
}

// runner carries the per-run state of the oracle.
type runner struct {
	cx      *lib.Ctx
	limit   time.Duration
	doc     string // replayable description of the current input
	n       int    // length of the current input
	badUTF8 bool   // the input is not valid UTF-8
	huge    bool   // the input contains a number with an enormous exponent: exact dumps / evaluation are skipped

	// watchdog state: the entry point being executed and when it started (0 = idle)
	mu      sync.Mutex
	entry   string
	started time.Time
	running bool
}

// call runs one implementation call and converts a panic into a failure. It returns false when the call
// panicked (its results must then not be used). Calls are timed by the watchdog goroutine, see watch.
func (rn *runner) call(entry string, f func()) (ok bool) {
	rn.mu.Lock()
	rn.entry, rn.started, rn.running = entry, time.Now(), true
	rn.mu.Unlock()
	defer func() {
		rn.mu.Lock()
		rn.running = false
		rn.mu.Unlock()
		if r := recover(); r != nil {
			stack := string(debug.Stack())
			rn.cx.Res.Fail(lib.Failure{Kind: "oracle", Key: "panic:" + entry + ":" + panicSite(stack) + ":" + slug(fmt.Sprint(r)),
				Desc: fmt.Sprintf("panic: %v\n%s", r, lib.Trunc(stack, 1800)), Input: rn.doc})
			ok = false
		}
	}()
	f()
	return true
}

// watch is the hang detector. Implementation calls run on the main goroutine (a goroutine per call costs
// more than most calls); this goroutine polls the call in progress and, when one exceeds the limit,
// records the failure hang:<entry> with the exact input, writes the result file and ends the run — the
// stuck call cannot be interrupted, and everything found so far is kept.
func (rn *runner) watch() {
	for {
		time.Sleep(200 * time.Millisecond)
		rn.mu.Lock()
		hung := rn.running && time.Since(rn.started) > rn.limit
		entry, doc := rn.entry, rn.doc
		rn.mu.Unlock()
		if !hung {
			continue
		}
		res := rn.cx.Res
		res.Fail(lib.Failure{Kind: "oracle", Key: "hang:" + entry,
			Desc: fmt.Sprintf("the call did not return within %v; the run was ended here", rn.limit), Input: doc})
		res.Notes = append(res.Notes, "run ended early by the hang watchdog in "+entry)
		out := ""
		for i, a := range os.Args {
			if (a == "-out" || a == "--out") && i+1 < len(os.Args) {
				out = os.Args[i+1]
			}
		}
		if out != "" {
			if err := res.Write(out); err != nil {
				fmt.Fprintln(os.Stderr, err)
				os.Exit(3)
			}
		}
		fmt.Printf("hx %s: evaluations=%d distinct=%d corr=%d failures=%d (ended by hang watchdog)\n", rn.cx.Prop, res.Evaluations, res.Distinct, res.CorrChecked, len(res.Failures))
		os.Exit(0)
	}
}

// panicSite names the innermost function of the library under test on the panicking stack (or of go-cty
// when no frame of the library is on it), so that the failure key identifies the defect, not the input.
func panicSite(stack string) string {
	lines := strings.Split(stack, "\n")
	seenPanic := false
	ctySite := ""
	for _, l := range lines {
		if strings.HasPrefix(l, "panic(") {
			seenPanic = true
			continue
		}
		if !seenPanic || strings.HasPrefix(l, "\t") {
			continue
		}
		if i := strings.Index(l, "github.com/hashicorp/hcl/v2"); i >= 0 {
			fn := l[i+len("github.com/hashicorp/hcl/v2"):]
			fn = strings.TrimPrefix(fn, "/")
			fn = strings.TrimPrefix(fn, ".")
			if j := strings.LastIndex(fn, "("); j > 0 { // drop the argument list
				fn = fn[:j]
			}
			return fn
		}
		if i := strings.Index(l, "github.com/zclconf/go-cty/"); i >= 0 && ctySite == "" {
			fn := l[i+len("github.com/zclconf/go-cty/"):]
			if j := strings.LastIndex(fn, "("); j > 0 {
				fn = fn[:j]
			}
			ctySite = "cty:" + fn
		}
	}
	if ctySite != "" {
		return ctySite
	}
	return "unknown-site"
}

// slug turns a message into a short key component without input-dependent numbers.
func slug(msg string) string {
	var sb strings.Builder
	dash := false
	for _, c := range strings.ToLower(msg) {
		switch {
		case c >= 'a' && c <= 'z':
			sb.WriteRune(c)
			dash = false
		default:
			if !dash && sb.Len() > 0 {
				sb.WriteByte('-')
				dash = true
			}
		}
		if sb.Len() >= 48 {
			break
		}
	}
	return strings.Trim(sb.String(), "-")
}

func (rn *runner) fail(key, desc, impl string) {
	rn.cx.Res.Fail(lib.Failure{Kind: "oracle", Key: key, Desc: desc, Input: rn.doc, Impl: lib.Trunc(impl, 1500)})
}

func rangeInBounds(r *hcl.Range, n int) bool {
	return r.Start.Byte >= 0 && r.Start.Byte <= r.End.Byte && r.End.Byte <= n
}

// checkDiags: every diagnostic has a severity, a summary, and ranges inside the input.
func (rn *runner) checkDiags(entry string, diags hcl.Diagnostics) {
	for i, d := range diags {
		if d == nil {
			rn.fail("diag-malformed:"+entry+":nil", fmt.Sprintf("diagnostic %d is nil", i), "")
			return
		}
		if d.Severity != hcl.DiagError && d.Severity != hcl.DiagWarning {
			rn.fail("diag-malformed:"+entry+":severity", fmt.Sprintf("diagnostic %d (%q) has severity %d", i, d.Summary, d.Severity), diagText(diags))
			return
		}
		if strings.TrimSpace(d.Summary) == "" {
			rn.fail("diag-malformed:"+entry+":summary", fmt.Sprintf("diagnostic %d has an empty summary (detail %q)", i, d.Detail), diagText(diags))
			return
		}
		if d.Subject == nil {
			rn.cx.Res.Count("diag-without-subject:" + entry)
			if frontEnd(entry) {
				rn.fail("diag-malformed:"+entry+":no-subject:"+slug(d.Summary), fmt.Sprintf("diagnostic %d (%q) of a front end has no subject range", i, d.Summary), diagText(diags))
				return
			}
		} else if !rangeInBounds(d.Subject, rn.n) {
			if rn.jsonBadUTF8(entry) {
				rn.fail("diag-malformed:"+entry+":range:invalid-utf8-in-json-string", fmt.Sprintf("diagnostic %d (%q) has subject bytes %d..%d, input length %d", i, d.Summary, d.Subject.Start.Byte, d.Subject.End.Byte, rn.n), diagText(diags))
				return
			}
			rn.fail("diag-malformed:"+entry+":subject-range:"+slug(d.Summary), fmt.Sprintf("diagnostic %d (%q) has subject bytes %d..%d, input length %d", i, d.Summary, d.Subject.Start.Byte, d.Subject.End.Byte, rn.n), diagText(diags))
			return
		}
		if d.Context != nil && !rangeInBounds(d.Context, rn.n) && rn.jsonBadUTF8(entry) {
			rn.fail("diag-malformed:"+entry+":range:invalid-utf8-in-json-string", fmt.Sprintf("diagnostic %d (%q) has context bytes %d..%d, input length %d", i, d.Summary, d.Context.Start.Byte, d.Context.End.Byte, rn.n), diagText(diags))
			return
		}
		if d.Context != nil && !rangeInBounds(d.Context, rn.n) {
			rn.fail("diag-malformed:"+entry+":context-range:"+slug(d.Summary), fmt.Sprintf("diagnostic %d (%q) has context bytes %d..%d, input length %d", i, d.Summary, d.Context.Start.Byte, d.Context.End.Byte, rn.n), diagText(diags))
			return
		}
	}
}

// jsonBadUTF8: evaluation of a JSON document that is not valid UTF-8. The JSON front end accepts such
// strings and decodes every bad byte to U+FFFD (three bytes), so the templates inside them are longer than
// their source text and their diagnostics can point past the end of the input: one defect class, one key.
func (rn *runner) jsonBadUTF8(entry string) bool {
	return rn.badUTF8 && (strings.HasPrefix(entry, "eval:json") || strings.HasPrefix(entry, "variables:json"))
}

// frontEnd: the parsing / scanning entry points (as opposed to schema application and evaluation).
func frontEnd(entry string) bool {
	return strings.HasPrefix(entry, "parse-") || strings.HasPrefix(entry, "lex-") || strings.HasPrefix(entry, "json-parse") || strings.HasPrefix(entry, "hclwrite-")
}

func diagSig(diags hcl.Diagnostics) string {
	var sb strings.Builder
	for _, d := range diags {
		if d == nil {
			sb.WriteString("nil;")
			continue
		}
		fmt.Fprintf(&sb, "%d|%s|", d.Severity, d.Summary)
		if d.Subject != nil {
			fmt.Fprintf(&sb, "%d:%d:%d-%d:%d:%d", d.Subject.Start.Byte, d.Subject.Start.Line, d.Subject.Start.Column, d.Subject.End.Byte, d.Subject.End.Line, d.Subject.End.Column)
		}
		sb.WriteString(";")
	}
	return sb.String()
}

func diagText(diags hcl.Diagnostics) string {
	var sb strings.Builder
	for i, d := range diags {
		if i > 8 {
			sb.WriteString("...\n")
			break
		}
		if d == nil {
			sb.WriteString("<nil>\n")
			continue
		}
		sub := "-"
		if d.Subject != nil {
			sub = fmt.Sprintf("%d..%d", d.Subject.Start.Byte, d.Subject.End.Byte)
		}
		fmt.Fprintf(&sb, "sev=%d %q subject=%s\n", d.Severity, d.Summary, sub)
	}
	return sb.String()
}

// same compares the results of calling an entry point twice.
func (rn *runner) same(entry, what, a, b string) bool {
	if a == b {
		return true
	}
	rn.fail("nondeterministic:"+entry+":"+what, "two calls on the same input returned different "+what, firstDiff(a, b))
	return false
}

func firstDiff(a, b string) string {
	i := 0
	for i < len(a) && i < len(b) && a[i] == b[i] {
		i++
	}
	lo := i - 60
	if lo < 0 {
		lo = 0
	}
	return "first:  " + lib.Trunc(a[lo:], 300) + "\nsecond: " + lib.Trunc(b[lo:], 300)
}

var hugeExponent = regexp.MustCompile(`[0-9.][eE][+-]?[0-9]{5,}`)
