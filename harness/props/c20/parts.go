package c20

import (
	"encoding/json"
	"fmt"
	"sort"
	"strings"

	"github.com/hashicorp/hcl/v2"
	"github.com/hashicorp/hcl/v2/hclsyntax"
	hcljson "github.com/hashicorp/hcl/v2/json"
	"github.com/zclconf/go-cty/cty"
	"github.com/zclconf/go-cty/cty/convert"
	"github.com/zclconf/go-cty/cty/function"

	"hx/lib"
)

// ---------------------------------------------------------------------------------------------
// fixed scope for part (c)

type recorder struct {
	calls [][]cty.Value
}

func (rc *recorder) fn() function.Function {
	return function.New(&function.Spec{
		VarParam: &function.Parameter{Name: "args", Type: cty.DynamicPseudoType, AllowNull: true, AllowUnknown: true, AllowDynamicType: true, AllowMarked: true},
		Type:     function.StaticReturnType(cty.String),
		Impl: func(args []cty.Value, retType cty.Type) (cty.Value, error) {
			rc.calls = append(rc.calls, append([]cty.Value{}, args...))
			return cty.StringVal("top"), nil
		},
	})
}

var idFunc = function.New(&function.Spec{
	Params: []function.Parameter{{Name: "x", Type: cty.DynamicPseudoType, AllowNull: true, AllowUnknown: true, AllowDynamicType: true, AllowMarked: true}},
	Type:   func(args []cty.Value) (cty.Type, error) { return args[0].Type(), nil },
	Impl:   func(args []cty.Value, retType cty.Type) (cty.Value, error) { return args[0], nil },
})

var catFunc = function.New(&function.Spec{
	VarParam: &function.Parameter{Name: "s", Type: cty.String},
	Type:     function.StaticReturnType(cty.String),
	Impl: func(args []cty.Value, retType cty.Type) (cty.Value, error) {
		var sb strings.Builder
		for _, a := range args {
			sb.WriteString(a.AsString())
		}
		return cty.StringVal(sb.String()), nil
	},
})

func partsCtx(rc *recorder) *hcl.EvalContext {
	parent := &hcl.EvalContext{
		Variables: map[string]cty.Value{
			"a": cty.NumberIntVal(1), "b": cty.StringVal("str"), "c": cty.True, "n": cty.NullVal(cty.DynamicPseudoType), "ns": cty.NullVal(cty.String),
			"u": cty.UnknownVal(cty.Number), "us": cty.UnknownVal(cty.String), "d": cty.DynamicVal,
			"lst":    cty.ListVal([]cty.Value{cty.StringVal("x"), cty.StringVal("y"), cty.StringVal("z")}),
			"tup":    cty.TupleVal([]cty.Value{cty.NumberIntVal(1), cty.StringVal("two"), cty.True}),
			"obj":    cty.ObjectVal(map[string]cty.Value{"p": cty.NumberIntVal(7), "q": cty.StringVal("s"), "r": cty.ListVal([]cty.Value{cty.NumberIntVal(1), cty.NumberIntVal(2)})}),
			"mp":     cty.MapVal(map[string]cty.Value{"k1": cty.StringVal("v1"), "k2": cty.StringVal("v2")}),
			"nested": cty.ObjectVal(map[string]cty.Value{"lst": cty.ListVal([]cty.Value{cty.ObjectVal(map[string]cty.Value{"id": cty.NumberIntVal(1)}), cty.ObjectVal(map[string]cty.Value{"id": cty.NumberIntVal(2)})})}),
			"empty":  cty.EmptyTupleVal,
			"sens":   cty.StringVal("secret").Mark("m"),
		},
		Functions: map[string]function.Function{"id": idFunc, "cat": catFunc},
	}
	child := parent.NewChild()
	child.Variables = map[string]cty.Value{"a": cty.NumberIntVal(2), "loc": cty.StringVal("local")}
	child.Functions = map[string]function.Function{"top": rc.fn(), "ns::top": rc.fn()}
	return child
}

// ---------------------------------------------------------------------------------------------
// expression text generator (typed loosely so that most expressions evaluate)

type eg struct{ r *lib.Rand }

func (g *eg) num(d int) string {
	r := g.r
	ws := []int{5, 3, 2, 2, 2, 1, 1, 1, 1}
	if d <= 0 {
		ws = []int{5, 3, 2}
	}
	switch r.Weighted(ws) {
	case 0:
		return pick(r, []string{"0", "1", "2", "3.5", "10", "1e3", "42"})
	case 1:
		return pick(r, []string{"a", "obj.p", "tup[0]", "tup.0", "obj.r[1]", "nested.lst[1].id", "obj[\"p\"]"})
	case 2:
		return pick(r, []string{"u", "d", "obj.zz", "lst[7]", "missing", "n.x"})
	case 3:
		return g.num(d-1) + pick(r, []string{" + ", " - ", " * ", "+", " % "}) + g.num(d-1)
	case 4:
		return "(" + g.num(d-1) + ")"
	case 5:
		return "-" + g.num(d-1)
	case 6:
		return g.boolean(d-1) + " ? " + g.num(d-1) + " : " + g.num(d-1)
	case 7:
		return "id(" + g.num(d-1) + ")"
	default:
		return "obj.r[" + g.num(d-1) + "]"
	}
}

func (g *eg) str(d int) string {
	r := g.r
	ws := []int{5, 3, 2, 2, 1, 1}
	if d <= 0 {
		ws = []int{5, 3, 1}
	}
	switch r.Weighted(ws) {
	case 0:
		return pick(r, []string{`"s"`, `"a b"`, `""`, `"esc\"q"`, `"$${lit}"`, `"%%{lit}"`, `"é"`, `"line\nbreak"`})
	case 1:
		return pick(r, []string{"b", "loc", "mp.k1", `mp["k2"]`, "lst[0]", "lst.2", "obj.q", "tup[1]"})
	case 2:
		return pick(r, []string{"us", "sens", `mp["zz"]`, "ns"})
	case 3:
		return `"x${` + g.any(d-1) + `}y"`
	case 4:
		return "cat(" + g.str(d-1) + ", " + g.str(d-1) + ")"
	default:
		return `"${` + g.str(d-1) + `}"`
	}
}

func (g *eg) boolean(d int) string {
	r := g.r
	ws := []int{4, 2, 2, 1, 1}
	if d <= 0 {
		ws = []int{4, 2}
	}
	switch r.Weighted(ws) {
	case 0:
		return pick(r, []string{"true", "false"})
	case 1:
		return pick(r, []string{"c", "tup[2]"})
	case 2:
		return g.num(d-1) + pick(r, []string{" == ", " != ", " < ", " >= "}) + g.num(d-1)
	case 3:
		return "!" + g.boolean(d-1)
	default:
		return g.boolean(d-1) + pick(r, []string{" && ", " || "}) + g.boolean(d-1)
	}
}

func (g *eg) coll(d int) string {
	r := g.r
	switch r.Weighted([]int{3, 2, 2, 1, 1, 1}) {
	case 0:
		return pick(r, []string{"lst", "tup", "obj", "mp", "nested", "empty", "obj.r", "nested.lst", "nested.lst[*].id", "lst[*]"})
	case 1:
		return g.tupleText(d-1, false)
	case 2:
		return g.objectText(d-1, false)
	case 3:
		return "[for v in lst : " + pick(r, []string{"v", `"${v}!"`, "[v]"}) + "]"
	case 4:
		return "{for k, v in mp : k => v}"
	default:
		return "id(" + g.coll(d-1) + ")"
	}
}

func (g *eg) any(d int) string {
	switch g.r.Weighted([]int{4, 4, 2, 3, 1}) {
	case 0:
		return g.num(d)
	case 1:
		return g.str(d)
	case 2:
		return g.boolean(d)
	case 3:
		if d <= 0 {
			return pick(g.r, []string{"lst", "tup", "obj", "[]", "{}"})
		}
		return g.coll(d)
	default:
		return "null"
	}
}

func (g *eg) sep(nl bool) string {
	if nl && g.r.Chance(1, 3) {
		return pick(g.r, []string{"\n", "\n  ", " \n "})
	}
	return pick(g.r, []string{"", " ", " ", "  "})
}

// tupleText renders a tuple constructor; top allows newlines and a trailing comma.
func (g *eg) tupleText(d int, top bool) string {
	n := g.r.Weighted([]int{2, 3, 3, 2, 1, 1})
	var sb strings.Builder
	sb.WriteString("[")
	for i := 0; i < n; i++ {
		if i > 0 {
			sb.WriteString(",")
		}
		sb.WriteString(g.sep(true))
		sb.WriteString(g.any(d))
		sb.WriteString(g.sep(true))
	}
	if n > 0 && g.r.Chance(1, 5) {
		sb.WriteString(",")
	}
	sb.WriteString(g.sep(true))
	sb.WriteString("]")
	return sb.String()
}

func (g *eg) objKey(d int, first bool) string {
	r := g.r
	switch r.Weighted([]int{6, 2, 3, 2, 2, 1, 1, 1}) {
	case 0:
		return pick(r, []string{"k1", "k2", "k3", "a", "b", "x-y", "if", "in", "é"})
	case 1:
		if first {
			return pick(r, []string{"null", "true", "false"})
		}
		return pick(r, []string{"null", "true", "false", "for"})
	case 2:
		return pick(r, []string{`"k 2"`, `"k1"`, `""`, `"a.b"`, `"for"`, `"$${x}"`})
	case 3:
		return pick(r, []string{`"${b}"`, `"p-${a}"`, `"${loc}"`})
	case 4:
		return "(" + g.str(d) + ")"
	case 5:
		return pick(r, []string{"3", "1.5", "(a)", "(c)"})
	case 6:
		return pick(r, []string{"(n)", "(us)", "(d)", "(ns)", "(lst)"})
	default:
		return pick(r, []string{"obj.q", "a.b", "mp.k1"}) // ambiguous-key error at evaluation
	}
}

func (g *eg) objectText(d int, top bool) string {
	n := g.r.Weighted([]int{2, 3, 3, 2, 1})
	var sb strings.Builder
	sb.WriteString("{")
	for i := 0; i < n; i++ {
		if i > 0 {
			sb.WriteString(pick(g.r, []string{",", "\n", ",\n", ", "}))
		} else {
			sb.WriteString(g.sep(true))
		}
		sb.WriteString(g.objKey(d, i == 0))
		sb.WriteString(pick(g.r, []string{" = ", "=", " : ", ":"}))
		sb.WriteString(g.any(d))
	}
	if n > 0 {
		sb.WriteString(pick(g.r, []string{"", ",", "\n", " "}))
	}
	sb.WriteString("}")
	return sb.String()
}

// callText renders a call of the recording function; expand says whether the final argument has "...".
func (g *eg) callText(d int) (text, name string, nargs int, expand bool) {
	name = pick(g.r, []string{"top", "top", "ns::top"})
	nargs = g.r.Weighted([]int{2, 3, 3, 2, 1})
	var sb strings.Builder
	sb.WriteString(name)
	sb.WriteString(g.sep(false))
	sb.WriteString("(")
	for i := 0; i < nargs; i++ {
		if i > 0 {
			sb.WriteString(",")
		}
		sb.WriteString(g.sep(true))
		if i == nargs-1 && g.r.Chance(1, 4) {
			expand = true
			sb.WriteString(pick(g.r, []string{"lst", "tup", "empty", "obj.r", "[1, b]", "[]", g.tupleText(d, false), "nested.lst[*].id"}))
			sb.WriteString(pick(g.r, []string{"...", " ..."}))
		} else {
			sb.WriteString(g.any(d))
		}
		sb.WriteString(g.sep(true))
	}
	sb.WriteString(")")
	return sb.String(), name, nargs, expand
}

// ---------------------------------------------------------------------------------------------
// checks

type partCase struct {
	Kind   string `json:"kind"`   // "list", "map", "call"
	Syntax string `json:"syntax"` // "native", "json"
	Text   string `json:"text"`   // native: expression source; json: the JSON document (list/map) or the call text (call)
	Name   string `json:"name,omitempty"`
	NArgs  int    `json:"nargs,omitempty"`
	Expand bool   `json:"expand,omitempty"`
}

func (pc *partCase) input() string {
	b, _ := json.Marshal(pc)
	return string(b)
}

func sameVal(a, b cty.Value) bool { return lib.DumpValue(a) == lib.DumpValue(b) }

func (k *checker) parsePart(pc *partCase, in string) (hcl.Expression, bool) {
	if pc.Syntax == "json" {
		src := []byte(pc.Text)
		if pc.Kind == "call" {
			src = jsonQuote(pc.Text)
		}
		e, d := hcljson.ParseExpression(src, "")
		if d.HasErrors() {
			k.fail("json-parse", "generated JSON rejected: "+d.Error(), in, pc.Text)
			return nil, false
		}
		return e, true
	}
	e, d := hclsyntax.ParseExpression([]byte(pc.Text), "", hcl.InitialPos)
	if d.HasErrors() {
		k.cx.Res.Count("parts:parse-error")
		return nil, false
	}
	return e, true
}

func (k *checker) checkList(pc *partCase) {
	in := pc.input()
	k.cx.Guard("exprlist", in, func() {
		e, ok := k.parsePart(pc, in)
		if !ok {
			return
		}
		rc := &recorder{}
		ctx := partsCtx(rc)
		parts, d := hcl.ExprList(e)
		if d.HasErrors() {
			k.fail("exprlist-rejected:"+pc.Syntax, "ExprList rejects a tuple constructor / JSON array: "+d.Error(), in, pc.Text)
			return
		}
		whole, wd := e.Value(ctx)
		anyErr := false
		vals := make([]cty.Value, len(parts))
		for i, p := range parts {
			v, pd := p.Value(ctx)
			vals[i] = v
			if pd.HasErrors() {
				anyErr = true
			}
		}
		if wd.HasErrors() != anyErr {
			k.fail("exprlist:error-outcome:"+pc.Syntax, "the whole evaluates with errors exactly when some static element does", in, fmt.Sprintf("whole errors=%v, some element errors=%v", wd.HasErrors(), anyErr))
			return
		}
		if wd.HasErrors() {
			k.cx.Res.Count("list:eval-error")
			return
		}
		k.cx.Res.Count("list:eval-ok")
		if !whole.Type().IsTupleType() || !whole.IsKnown() || whole.IsNull() || whole.IsMarked() {
			k.fail("exprlist:whole-not-tuple:"+pc.Syntax, "tuple constructor does not evaluate to a tuple", in, lib.DumpValue(whole))
			return
		}
		if whole.LengthInt() != len(parts) {
			k.fail("exprlist:length:"+pc.Syntax, fmt.Sprintf("ExprList returns %d expressions, the value has %d elements", len(parts), whole.LengthInt()), in, lib.DumpValue(whole))
			return
		}
		i := 0
		for it := whole.ElementIterator(); it.Next(); i++ {
			_, ev := it.Element()
			if !sameVal(ev, vals[i]) {
				k.fail("exprlist:element:"+pc.Syntax, fmt.Sprintf("static element %d evaluates differently from element %d of the whole", i, i), in, "part  "+lib.DumpValue(vals[i])+"\nwhole "+lib.DumpValue(ev))
				return
			}
		}
	})
}

func (k *checker) checkMap(pc *partCase) {
	in := pc.input()
	k.cx.Guard("exprmap", in, func() {
		e, ok := k.parsePart(pc, in)
		if !ok {
			return
		}
		rc := &recorder{}
		ctx := partsCtx(rc)
		pairs, d := hcl.ExprMap(e)
		if d.HasErrors() {
			k.fail("exprmap-rejected:"+pc.Syntax, "ExprMap rejects an object constructor / JSON object: "+d.Error(), in, pc.Text)
			return
		}
		whole, wd := e.Value(ctx)
		if wd.HasErrors() {
			k.cx.Res.Count("map:eval-error")
			return
		}
		if !whole.IsKnown() {
			k.cx.Res.Count("map:unknown-key")
			return
		}
		k.cx.Res.Count("map:eval-ok")
		if !whole.Type().IsObjectType() || whole.IsNull() {
			k.fail("exprmap:whole-not-object:"+pc.Syntax, "object constructor does not evaluate to an object", in, lib.DumpValue(whole))
			return
		}
		uw, _ := whole.Unmark()
		expect := map[string]cty.Value{}
		for i, p := range pairs {
			kv, kd := p.Key.Value(ctx)
			if kd.HasErrors() {
				k.fail("exprmap:key-error:"+pc.Syntax, fmt.Sprintf("static key %d fails to evaluate although the whole evaluates", i), in, kd.Error())
				return
			}
			kv, _ = kv.Unmark()
			ks, err := convert.Convert(kv, cty.String)
			if err != nil || ks.IsNull() || !ks.IsKnown() {
				k.fail("exprmap:key-not-string:"+pc.Syntax, fmt.Sprintf("static key %d does not evaluate to a usable key although the whole evaluates", i), in, lib.DumpValue(kv))
				return
			}
			vv, vd := p.Value.Value(ctx)
			if vd.HasErrors() {
				k.fail("exprmap:value-error:"+pc.Syntax, fmt.Sprintf("static value %d fails to evaluate although the whole evaluates", i), in, vd.Error())
				return
			}
			expect[ks.AsString()] = vv // a later item with the same key wins (native); JSON rejects duplicates
		}
		if len(expect) != uw.LengthInt() {
			k.fail("exprmap:keys:"+pc.Syntax, fmt.Sprintf("static pairs give %d distinct keys, the value has %d attributes", len(expect), uw.LengthInt()), in, lib.DumpValue(whole))
			return
		}
		names := make([]string, 0, len(expect))
		for name := range expect {
			names = append(names, name)
		}
		sort.Strings(names)
		for _, name := range names {
			want := expect[name]
			if !uw.Type().HasAttribute(name) {
				k.fail("exprmap:keys:"+pc.Syntax, fmt.Sprintf("static key %q is not an attribute of the value", name), in, lib.DumpValue(whole))
				return
			}
			if !sameVal(uw.GetAttr(name), want) {
				k.fail("exprmap:value:"+pc.Syntax, fmt.Sprintf("static value for key %q evaluates differently from the attribute of the whole", name), in, "part  "+lib.DumpValue(want)+"\nwhole "+lib.DumpValue(uw.GetAttr(name)))
				return
			}
		}
	})
}

func (k *checker) checkCall(pc *partCase) {
	in := pc.input()
	k.cx.Guard("exprcall", in, func() {
		e, ok := k.parsePart(pc, in)
		if !ok {
			return
		}
		call, d := hcl.ExprCall(e)
		if d.HasErrors() {
			if pc.Syntax == "json" {
				// JSON: the string must parse as a native expression; generated texts do
				if _, pd := hclsyntax.ParseExpression([]byte(pc.Text), "", hcl.InitialPos); pd.HasErrors() {
					k.cx.Res.Count("parts:parse-error")
					return
				}
			}
			k.fail("exprcall-rejected:"+pc.Syntax, "ExprCall rejects a function call expression: "+d.Error(), in, pc.Text)
			return
		}
		if call.Name != pc.Name {
			k.fail("exprcall:name:"+pc.Syntax, fmt.Sprintf("ExprCall name %q, written %q", call.Name, pc.Name), in, pc.Text)
			return
		}
		if len(call.Arguments) != pc.NArgs {
			k.fail("exprcall:arg-count:"+pc.Syntax, fmt.Sprintf("ExprCall returns %d arguments, written %d", len(call.Arguments), pc.NArgs), in, pc.Text)
			return
		}
		// evaluation of the whole: native directly, JSON as "${call}"
		rc := &recorder{}
		ctx := partsCtx(rc)
		var wd hcl.Diagnostics
		if pc.Syntax == "json" {
			ie, d := hcljson.ParseExpression(jsonQuote("${"+pc.Text+"}"), "")
			if d.HasErrors() {
				k.fail("json-parse", "generated JSON rejected: "+d.Error(), in, pc.Text)
				return
			}
			_, wd = ie.Value(ctx)
		} else {
			_, wd = e.Value(ctx)
		}
		if wd.HasErrors() {
			k.cx.Res.Count("call:eval-error")
			return
		}
		if len(rc.calls) != 1 {
			k.cx.Res.Count("call:not-invoked(unknown expansion)")
			return
		}
		k.cx.Res.Count("call:eval-ok")
		got := rc.calls[0]
		var want []cty.Value
		for i, a := range call.Arguments {
			v, ad := a.Value(ctx)
			if ad.HasErrors() {
				k.fail("exprcall:arg-error:"+pc.Syntax, fmt.Sprintf("static argument %d fails to evaluate although the call evaluates", i), in, ad.Error())
				return
			}
			if pc.Expand && i == len(call.Arguments)-1 {
				uv, _ := v.Unmark()
				if !uv.IsKnown() || uv.IsNull() || !(uv.Type().IsTupleType() || uv.Type().IsListType() || uv.Type().IsSetType()) {
					k.fail("exprcall:expand-arg:"+pc.Syntax, "the expanded final argument is not a known sequence although the call was made", in, lib.DumpValue(v))
					return
				}
				for it := uv.ElementIterator(); it.Next(); {
					_, ev := it.Element()
					want = append(want, ev)
				}
				continue
			}
			want = append(want, v)
		}
		if len(want) != len(got) {
			k.fail("exprcall:received-count:"+pc.Syntax, fmt.Sprintf("static arguments give %d values, the function received %d", len(want), len(got)), in, pc.Text)
			return
		}
		for i := range want {
			if !sameVal(want[i], got[i]) {
				k.fail("exprcall:argument:"+pc.Syntax, fmt.Sprintf("static argument %d evaluates differently from what the function received", i), in, "part     "+lib.DumpValue(want[i])+"\nreceived "+lib.DumpValue(got[i]))
				return
			}
		}
	})
}

// ---------------------------------------------------------------------------------------------
// JSON documents

func (g *eg) jsonString() string {
	r := g.r
	var s string
	switch r.Weighted([]int{4, 3, 2, 2, 1}) {
	case 0:
		s = pick(r, []string{"plain", "", "a b", "é", "$${lit}", "q\"uote", "back\\\\slash"})
	case 1:
		s = "${" + g.any(1) + "}"
	case 2:
		s = "x${" + g.str(1) + "}y"
	case 3:
		s = pick(r, []string{"${a}", "${obj.p}", "${lst}", "${mp.k1}", "${sens}", "${u}"})
	default:
		s = pick(r, []string{"${missing}", "${obj.zz}", "${n.x}"})
	}
	return string(jsonQuote(s))
}

func (g *eg) jsonValue(d int) string {
	r := g.r
	ws := []int{4, 3, 1, 1, 2, 2}
	if d <= 0 {
		ws = []int{4, 3, 1, 1}
	}
	switch r.Weighted(ws) {
	case 0:
		return g.jsonString()
	case 1:
		return pick(r, []string{"0", "1", "-2", "3.5", "1e3", "12345678901234567890"})
	case 2:
		return pick(r, []string{"true", "false"})
	case 3:
		return "null"
	case 4:
		return g.jsonArray(d - 1)
	default:
		return g.jsonObject(d - 1)
	}
}

func (g *eg) jsonArray(d int) string {
	n := g.r.Weighted([]int{2, 3, 3, 2, 1})
	parts := make([]string, n)
	for i := range parts {
		parts[i] = g.jsonValue(d)
	}
	return "[" + g.sep(true) + strings.Join(parts, ","+g.sep(true)) + g.sep(true) + "]"
}

func (g *eg) jsonObject(d int) string {
	r := g.r
	n := r.Weighted([]int{2, 3, 3, 2, 1})
	parts := make([]string, n)
	for i := range parts {
		var key string
		switch r.Weighted([]int{6, 2, 1, 1}) {
		case 0:
			key = pick(r, []string{"k1", "k2", "k3", "k4", "a b", "", "for", "null", "é", "a.b"})
		case 1:
			key = pick(r, []string{"${b}", "p-${a}", "${loc}", "$${x}", "%{ if true }yes%{ else }no%{ endif }", "100%%{", "%{ for x in [1] }f%{ endfor }", "%%{ literal", "a%{ if false }b%{ endif }c"})
		case 2:
			key = pick(r, []string{"${a}", "${c}"})
		default:
			key = pick(r, []string{"${n}", "${us}", "${lst}", "${missing}"})
		}
		parts[i] = string(jsonQuote(key)) + g.sep(false) + ":" + g.sep(false) + g.jsonValue(d)
	}
	return "{" + g.sep(true) + strings.Join(parts, ","+g.sep(true)) + g.sep(true) + "}"
}
