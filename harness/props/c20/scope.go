package c20

import (
	"encoding/json"
	"fmt"
	"math/big"
	"sort"
	"strings"

	"github.com/zclconf/go-cty/cty"
	ctyjson "github.com/zclconf/go-cty/cty/json"

	"hx/lib"
)

// ---------------------------------------------------------------------------------------------
// scope values: nested objects/maps/lists/tuples/sets with primitive, null, unknown and marked leaves

var attrPool = []string{"a", "b", "c", "foo", "bar", "x-y", "k1", "for", "in", "null_", "type", "é", "id", "0a"}
var keyPool = []string{"a", "b", "foo", "x y", "0", "1", "", "a.b", "${", "k\"q", "é", "%{x}", "line\nbreak", "2",
	// keys that look like other syntax: calls, brackets, splats, comments, operators
	"a(b)", "(", "f()", "[0]", "a]", "*", "...", "=>", "a,b", "#c", "/*c*/", "?:", "{}"}

func pick(r *lib.Rand, xs []string) string { return xs[r.Intn(len(xs))] }

func genScopeValue(r *lib.Rand, depth int) cty.Value {
	ws := []int{3, 3, 1, 1, 1, 1, 4, 3, 3, 3, 1}
	if depth <= 0 {
		ws = []int{3, 3, 1, 1, 1, 1, 0, 0, 0, 0, 0}
	}
	switch r.Weighted(ws) {
	case 0:
		return cty.StringVal(pick(r, []string{"", "s", "hello", "0", "1", "é", "${x}"}))
	case 1:
		return cty.NumberIntVal(int64(r.Intn(7) - 1))
	case 2:
		return cty.BoolVal(r.Chance(1, 2))
	case 3:
		tys := []cty.Type{cty.DynamicPseudoType, cty.String, cty.Number, cty.List(cty.String), cty.Map(cty.Number), cty.EmptyObject, cty.Object(map[string]cty.Type{"a": cty.String}), cty.Tuple([]cty.Type{cty.Bool})}
		return cty.NullVal(tys[r.Intn(len(tys))])
	case 4:
		tys := []cty.Type{cty.DynamicPseudoType, cty.String, cty.Number, cty.List(cty.String), cty.Map(cty.Number), cty.Object(map[string]cty.Type{"a": cty.String, "b": cty.List(cty.Number)}), cty.Tuple([]cty.Type{cty.Bool, cty.String}), cty.Set(cty.String)}
		return cty.UnknownVal(tys[r.Intn(len(tys))])
	case 5:
		return genScopeValue(r, depth-1).Mark("m")
	case 6: // object
		n := r.Intn(5)
		m := map[string]cty.Value{}
		for i := 0; i < n; i++ {
			k := pick(r, attrPool)
			if r.Chance(1, 4) {
				k = pick(r, keyPool)
			}
			m[k] = genScopeValue(r, depth-1)
		}
		return cty.ObjectVal(m)
	case 7: // map: elements of one type
		n := r.Intn(4)
		ety := genElemType(r)
		if n == 0 {
			return cty.MapValEmpty(ety)
		}
		m := map[string]cty.Value{}
		for i := 0; i < n; i++ {
			k := pick(r, keyPool)
			if r.Chance(1, 2) {
				k = pick(r, attrPool)
			}
			m[k] = genOfType(r, ety, depth-1)
		}
		return cty.MapVal(m)
	case 8: // list
		n := r.Intn(4)
		ety := genElemType(r)
		if n == 0 {
			return cty.ListValEmpty(ety)
		}
		vs := make([]cty.Value, n)
		for i := range vs {
			vs[i] = genOfType(r, ety, depth-1)
		}
		return cty.ListVal(vs)
	case 9: // tuple
		n := r.Intn(4)
		vs := make([]cty.Value, n)
		for i := range vs {
			vs[i] = genScopeValue(r, depth-1)
		}
		return cty.TupleVal(vs)
	default: // set
		n := 1 + r.Intn(3)
		vs := make([]cty.Value, n)
		for i := range vs {
			vs[i] = cty.StringVal(pick(r, []string{"p", "q", "r"}))
		}
		return cty.SetVal(vs)
	}
}

func genElemType(r *lib.Rand) cty.Type {
	switch r.Intn(6) {
	case 0:
		return cty.String
	case 1:
		return cty.Number
	case 2:
		return cty.Object(map[string]cty.Type{"a": cty.String, "id": cty.Number})
	case 3:
		return cty.List(cty.String)
	case 4:
		return cty.Map(cty.Number)
	default:
		return cty.Bool
	}
}

func genOfType(r *lib.Rand, ty cty.Type, depth int) cty.Value {
	if r.Chance(1, 12) {
		return cty.NullVal(ty)
	}
	if r.Chance(1, 25) {
		return cty.UnknownVal(ty)
	}
	switch {
	case ty == cty.String:
		return cty.StringVal(pick(r, []string{"", "s", "t", "0", "é"}))
	case ty == cty.Number:
		return cty.NumberIntVal(int64(r.Intn(5)))
	case ty == cty.Bool:
		return cty.BoolVal(r.Chance(1, 2))
	case ty.IsObjectType():
		m := map[string]cty.Value{}
		names := make([]string, 0)
		for k := range ty.AttributeTypes() {
			names = append(names, k)
		}
		sort.Strings(names)
		for _, k := range names {
			m[k] = genOfType(r, ty.AttributeType(k), depth-1)
		}
		return cty.ObjectVal(m)
	case ty.IsListType():
		n := r.Intn(3)
		if n == 0 {
			return cty.ListValEmpty(ty.ElementType())
		}
		vs := make([]cty.Value, n)
		for i := range vs {
			vs[i] = genOfType(r, ty.ElementType(), depth-1)
		}
		return cty.ListVal(vs)
	case ty.IsMapType():
		n := r.Intn(3)
		if n == 0 {
			return cty.MapValEmpty(ty.ElementType())
		}
		m := map[string]cty.Value{}
		for i := 0; i < n; i++ {
			m[pick(r, keyPool)] = genOfType(r, ty.ElementType(), depth-1)
		}
		return cty.MapVal(m)
	}
	panic("harness: genOfType")
}

// ---------------------------------------------------------------------------------------------
// replay encoding of scope values (type JSON + value tree with unknowns and marks)

type valDoc struct {
	Type  json.RawMessage `json:"type"`
	Value interface{}     `json:"value"`
}

func encTree(v cty.Value) interface{} {
	if v.IsMarked() {
		u, _ := v.Unmark()
		return map[string]interface{}{"mark": encTree(u), "ty": typeJSON(u.Type())}
	}
	if !v.IsKnown() {
		return map[string]interface{}{"unk": true}
	}
	if v.IsNull() {
		return nil
	}
	ty := v.Type()
	switch {
	case ty == cty.String:
		return map[string]interface{}{"s": v.AsString()}
	case ty == cty.Number:
		bf := v.AsBigFloat()
		return map[string]interface{}{"n": bf.Text('p', 0), "p": bf.Prec()}
	case ty == cty.Bool:
		return v.True()
	case ty.IsListType() || ty.IsSetType() || ty.IsTupleType():
		es := []interface{}{}
		for it := v.ElementIterator(); it.Next(); {
			_, ev := it.Element()
			es = append(es, encTree(ev))
		}
		return map[string]interface{}{"e": es}
	case ty.IsMapType() || ty.IsObjectType():
		kv := []interface{}{}
		for it := v.ElementIterator(); it.Next(); {
			k, ev := it.Element()
			kv = append(kv, []interface{}{k.AsString(), encTree(ev)})
		}
		return map[string]interface{}{"kv": kv}
	}
	panic("harness: cannot encode value")
}

func typeJSON(ty cty.Type) json.RawMessage {
	b, err := ctyjson.MarshalType(ty)
	if err != nil {
		panic(err)
	}
	return b
}

func encVal(v cty.Value) valDoc {
	u, _ := v.Unmark()
	return valDoc{Type: typeJSON(u.Type()), Value: encTree(v)}
}

func decVal(d valDoc) (cty.Value, error) {
	ty, err := ctyjson.UnmarshalType(d.Type)
	if err != nil {
		return cty.NilVal, err
	}
	return decTree(d.Value, ty)
}

func decTree(x interface{}, ty cty.Type) (cty.Value, error) {
	if x == nil {
		return cty.NullVal(ty), nil
	}
	if m, ok := x.(map[string]interface{}); ok {
		if inner, ok := m["mark"]; ok {
			v, err := decTree(inner, ty)
			if err != nil {
				return v, err
			}
			return v.Mark("m"), nil
		}
		if _, ok := m["unk"]; ok {
			return cty.UnknownVal(ty), nil
		}
	}
	switch {
	case ty == cty.DynamicPseudoType:
		return cty.NilVal, fmt.Errorf("dynamic value must be null or unknown")
	case ty == cty.String:
		m, _ := x.(map[string]interface{})
		s, ok := m["s"].(string)
		if !ok {
			return cty.NilVal, fmt.Errorf("string expected")
		}
		return cty.StringVal(s), nil
	case ty == cty.Number:
		m, _ := x.(map[string]interface{})
		s, _ := m["n"].(string)
		p, _ := m["p"].(float64)
		bf := new(big.Float).SetPrec(uint(p)).SetMode(big.ToNearestEven)
		if _, ok := bf.SetString(s); !ok {
			return cty.NilVal, fmt.Errorf("bad number %q", s)
		}
		return cty.NumberVal(bf), nil
	case ty == cty.Bool:
		b, ok := x.(bool)
		if !ok {
			return cty.NilVal, fmt.Errorf("bool expected")
		}
		return cty.BoolVal(b), nil
	case ty.IsListType() || ty.IsSetType() || ty.IsTupleType():
		m, _ := x.(map[string]interface{})
		es, ok := m["e"].([]interface{})
		if !ok {
			return cty.NilVal, fmt.Errorf("sequence expected")
		}
		vs := make([]cty.Value, len(es))
		for i, e := range es {
			var ety cty.Type
			if ty.IsTupleType() {
				ets := ty.TupleElementTypes()
				if i >= len(ets) {
					return cty.NilVal, fmt.Errorf("tuple too long")
				}
				ety = ets[i]
			} else {
				ety = ty.ElementType()
			}
			v, err := decTree(e, ety)
			if err != nil {
				return cty.NilVal, err
			}
			vs[i] = v
		}
		switch {
		case ty.IsTupleType():
			return cty.TupleVal(vs), nil
		case len(vs) == 0 && ty.IsListType():
			return cty.ListValEmpty(ty.ElementType()), nil
		case len(vs) == 0:
			return cty.SetValEmpty(ty.ElementType()), nil
		case ty.IsListType():
			return cty.ListVal(vs), nil
		default:
			return cty.SetVal(vs), nil
		}
	case ty.IsMapType() || ty.IsObjectType():
		m, _ := x.(map[string]interface{})
		kvs, ok := m["kv"].([]interface{})
		if !ok {
			return cty.NilVal, fmt.Errorf("mapping expected")
		}
		out := map[string]cty.Value{}
		for _, kv := range kvs {
			pair, _ := kv.([]interface{})
			if len(pair) != 2 {
				return cty.NilVal, fmt.Errorf("pair expected")
			}
			k, _ := pair[0].(string)
			var ety cty.Type
			if ty.IsMapType() {
				ety = ty.ElementType()
			} else {
				if !ty.HasAttribute(k) {
					return cty.NilVal, fmt.Errorf("no attribute %q", k)
				}
				ety = ty.AttributeType(k)
			}
			v, err := decTree(pair[1], ety)
			if err != nil {
				return cty.NilVal, err
			}
			out[k] = v
		}
		if ty.IsObjectType() {
			return cty.ObjectVal(out), nil
		}
		if len(out) == 0 {
			return cty.MapValEmpty(ty.ElementType()), nil
		}
		return cty.MapVal(out), nil
	}
	return cty.NilVal, fmt.Errorf("unsupported type")
}

// ---------------------------------------------------------------------------------------------
// intended traversal steps and the reference walk

// step is one intended traversal step: kind root/attr/idxstr/idxnum/legacy.
type step struct {
	K string `json:"k"`
	S string `json:"s,omitempty"` // name, string key, or number text
}

// outcome of the reference walk
const (
	refValue = iota
	refError
	refUnspecified
)

func isPlainInt(s string) bool {
	if s == "" || len(s) > 9 {
		return false
	}
	for _, c := range s {
		if c < '0' || c > '9' {
			return false
		}
	}
	return !(len(s) > 1 && s[0] == '0')
}

// refStep applies one step to a known, unmarked, non-dynamic value according to the language definition
// (attribute access on objects and maps, indexing of sequences by whole numbers, of mappings by strings,
// with the automatic number<->string key conversion for the plain cases).
func refStep(v cty.Value, st step) (cty.Value, int) {
	if v.IsMarked() || !v.IsKnown() || v.Type() == cty.DynamicPseudoType {
		return cty.NilVal, refUnspecified
	}
	if v.IsNull() {
		return cty.NilVal, refError
	}
	ty := v.Type()
	lookup := func(k string) (cty.Value, int) {
		switch {
		case ty.IsObjectType():
			k = cty.StringVal(k).AsString()
			if !ty.HasAttribute(k) {
				return cty.NilVal, refError
			}
			return v.GetAttr(k), refValue
		case ty.IsMapType():
			kv := cty.StringVal(k)
			if !v.HasIndex(kv).True() {
				return cty.NilVal, refError
			}
			return v.Index(kv), refValue
		}
		return cty.NilVal, refError
	}
	seq := func(numText string) (cty.Value, int) {
		if !isPlainInt(numText) {
			return cty.NilVal, refUnspecified
		}
		n := 0
		fmt.Sscan(numText, &n)
		if n >= v.LengthInt() {
			return cty.NilVal, refError
		}
		return v.Index(cty.NumberIntVal(int64(n))), refValue
	}
	switch st.K {
	case "attr":
		if ty.IsObjectType() || ty.IsMapType() {
			return lookup(st.S)
		}
		return cty.NilVal, refError
	case "idxstr":
		switch {
		case ty.IsObjectType() || ty.IsMapType():
			return lookup(st.S)
		case ty.IsListType() || ty.IsTupleType():
			if isPlainInt(st.S) {
				return seq(st.S)
			}
			if _, err := cty.ParseNumberVal(st.S); err != nil {
				return cty.NilVal, refError
			}
			return cty.NilVal, refUnspecified
		}
		return cty.NilVal, refError
	case "idxnum", "legacy":
		switch {
		case ty.IsListType() || ty.IsTupleType():
			if isPlainInt(st.S) {
				return seq(st.S)
			}
			if strings.ContainsAny(st.S, ".eE") {
				// could still be a whole number (1.0, 1e0): leave to the implementation
				nv, err := cty.ParseNumberVal(st.S)
				if err == nil {
					if _, acc := nv.AsBigFloat().Int(nil); acc != big.Exact {
						return cty.NilVal, refError
					}
				}
			}
			return cty.NilVal, refUnspecified
		case ty.IsObjectType() || ty.IsMapType():
			if isPlainInt(st.S) {
				return lookup(st.S)
			}
			return cty.NilVal, refUnspecified
		}
		return cty.NilVal, refError
	}
	return cty.NilVal, refUnspecified
}

// refWalk applies the steps after the root to the root variable's value.
func refWalk(root cty.Value, steps []step) (cty.Value, int) {
	cur := root
	for _, st := range steps {
		var o int
		cur, o = refStep(cur, st)
		if o != refValue {
			return cty.NilVal, o
		}
	}
	return cur, refValue
}
