// Package c20 is the direct oracle for property C20: static analysis of an expression (traversal, keyword,
// list, map, call, type constraint) agrees with its evaluation and round-trips, in native and JSON syntax.
package c20

import (
	"crypto/sha1"
	"encoding/hex"
	"encoding/json"
	"strings"

	"github.com/hashicorp/hcl/v2"
	"github.com/hashicorp/hcl/v2/hclsyntax"
	hcljson "github.com/hashicorp/hcl/v2/json"
	"github.com/zclconf/go-cty/cty"
	ctyjson "github.com/zclconf/go-cty/cty/json"

	"hx/lib"
)

func init() { lib.Register("C20", run) }

type checker struct {
	cx *lib.Ctx
}

// ---------------------------------------------------------------------------------------------
// (b) arbitrary texts over the traversal alphabet: accepted by ParseTraversalAbs => same traversal via the expression parser

var soupToks = []string{"a", "b", "foo", "x-y", "true", "null", "false", "for", "in", ".", ".", ".", "[", "]", "[", "]", "0", "1", "10", "1.5", "0.5", "1e2", "007", `"k"`, `"a b"`, `""`, `"é"`, `"$${x}"`, `"${x}"`, `"%{if a}"`, `"\n"`, `"\q"`, "*", "(", ")", "-", "+", ",", " ", " ", "\n", "\t", "#c\n", "/*c*/", "...", "::", "!", "${", "}", "<<E\nk\nE\n", "0x1", "1e", "1.", ".5", "_", "é", "$", "?", ":", "="}

func genSoup(r *lib.Rand) string {
	var sb strings.Builder
	if r.Chance(5, 6) {
		sb.WriteString(pick(r, []string{"a", "foo", "x-y", "true", "null", "for", "é"}))
	}
	n := r.Intn(9)
	for i := 0; i < n; i++ {
		switch r.Weighted([]int{5, 4, 4, 3, 3}) {
		case 0:
			sb.WriteString("." + pick(r, []string{"a", "b", "foo", "for", "true", "0", "1", "12", "*", "é", " b", "\nb"}))
		case 1:
			sb.WriteString("[" + pick(r, []string{"0", "1", " 2 ", "1.5", "1e2", "007", "\n3\n", "-1", "true", "null", "a", "*", "", "0x1", "1e", "1+1", "(1)", "18446744073709551616", "1e4000"}) + "]")
		case 2:
			sb.WriteString("[" + pick(r, []string{`"k"`, `"a b"`, `""`, ` "k" `, `"é"`, `"é"`, `"$${x}"`, `"%%{x}"`, `"${x}"`, `"%{if a}"`, `"\n"`, `"\q"`, `"\u00e9"`, `"\U0001F600"`, `"\u12"`, "\"a\nb\"", `"k`, `"a""b"`, `"$"`, `"$$"`, `"$${"`, `"%"`, "\"\\\\\"", `"k"."j"`, "<<E\nk\nE\n"}) + "]")
		case 3:
			sb.WriteString(pick(r, []string{" ", "\n", "\t", "#c\n", "/*c*/", "//c\n", "\r\n"}))
		default:
			sb.WriteString(pick(r, soupToks))
		}
	}
	return sb.String()
}

type soupCase struct {
	Kind string `json:"kind"` // "text"
	Text string `json:"text"`
}

func (k *checker) checkSoup(text string) {
	b, _ := json.Marshal(soupCase{Kind: "text", Text: text})
	in := string(b)
	cx := k.cx
	cx.Guard("standalone", in, func() {
		st, sd := hclsyntax.ParseTraversalAbs([]byte(text), "", hcl.InitialPos)
		e, ed := hclsyntax.ParseExpression([]byte(text), "", hcl.InitialPos)
		var et hcl.Traversal
		exprOK := false
		if !ed.HasErrors() {
			var td hcl.Diagnostics
			et, td = hcl.AbsTraversalForExpr(e)
			exprOK = !td.HasErrors()
		}
		switch {
		case !sd.HasErrors():
			cx.Res.Count("text:standalone-accepts")
			if ed.HasErrors() {
				k.fail("standalone-accepts-expression-rejects:parse", "ParseTraversalAbs accepts a text that the expression parser rejects: "+ed.Error(), in, lib.DumpTraversal(st))
				return
			}
			if !exprOK {
				k.fail("standalone-accepts-expression-rejects:not-static", "ParseTraversalAbs accepts a text whose expression is not a static traversal", in, lib.DumpTraversal(st)+"\n"+lib.DumpExpr(e.(hclsyntax.Expression), false))
				return
			}
			if lib.DumpTraversal(st) != lib.DumpTraversal(et) {
				k.fail("standalone-vs-expression:text", "ParseTraversalAbs and the expression parser read different traversals from the same text", in, "standalone "+lib.DumpTraversal(st)+"\nexpression "+lib.DumpTraversal(et))
				return
			}
			// JSON static view of the same text
			je, jd := hcljson.ParseExpression(jsonQuote(text), "")
			if jd.HasErrors() {
				k.fail("json-parse", "JSON string rejected: "+jd.Error(), in, text)
				return
			}
			jt, jtd := hcl.AbsTraversalForExpr(je)
			if jtd.HasErrors() || lib.DumpTraversal(jt) != lib.DumpTraversal(st) {
				k.fail("json-static-vs-standalone", "JSON static traversal differs from ParseTraversalAbs of the string content", in, lib.DumpTraversal(jt))
				return
			}
		case exprOK:
			// the JSON static view is defined by ParseTraversalAbs: it must not accept what that rejects
			if je, jd := hcljson.ParseExpression(jsonQuote(text), ""); !jd.HasErrors() {
				if jt, jtd := hcl.AbsTraversalForExpr(je); !jtd.HasErrors() {
					k.fail("json-static-vs-standalone", "JSON static traversal accepts a string that ParseTraversalAbs rejects", in, lib.DumpTraversal(jt))
					return
				}
			}
			// expression route only: a distribution count, not a failure
			reason := "other"
			for _, s := range et {
				if ti, ok := s.(hcl.TraverseIndex); ok {
					switch {
					case !ti.Key.IsKnown():
						reason = "legacy-chain"
					case ti.Key.IsNull() || ti.Key.Type() == cty.Bool:
						reason = "keyword-key"
					}
				}
			}
			if reason == "other" {
				switch {
				case strings.Contains(text, "<<"):
					reason = "heredoc-key"
				case hasLegacyDot(text):
					reason = "legacy-index"
				}
			}
			cx.Res.Count("text:expression-only:" + reason)
		default:
			if je, jd := hcljson.ParseExpression(jsonQuote(text), ""); !jd.HasErrors() {
				if jt, jtd := hcl.AbsTraversalForExpr(je); !jtd.HasErrors() {
					k.fail("json-static-vs-standalone", "JSON static traversal accepts a string that ParseTraversalAbs rejects", in, lib.DumpTraversal(jt))
					return
				}
			}
			cx.Res.Count("text:neither")
		}
	})
}

func hasLegacyDot(text string) bool {
	for i := 0; i+1 < len(text); i++ {
		if text[i] == '.' {
			j := i + 1
			for j < len(text) && (text[j] == ' ' || text[j] == '\n' || text[j] == '\t' || text[j] == '\r') {
				j++
			}
			if j < len(text) && text[j] >= '0' && text[j] <= '9' {
				return true
			}
		}
	}
	return false
}

// ---------------------------------------------------------------------------------------------

var handTravTexts = []string{"a", "a.b", "a[0]", "a.0", "a.0.b", "a.0 .1", "a[\"k\"]", "a\n.b", "a[\n0\n]", "a . b", "true", "null.a", "false[0]", "a[0][1].b[\"c\"]", "a[1.5]", "a[1e2]", "a[\"$${x}\"]", "a[\"\\u00e9\"]", "for.in"}

var handSoups = []string{"", "a.", "a[", "a[]", "a[*]", "a.*", "a[true]", "a[null]", "a[-1]", "a[\"${x}\"]", "a.0.1", "a b", "a,b", "(a)", "(a).b", "a.(b)", "a[0]]", "a..b", "a[0", "a[\"k\"", "a[<<E\nk\nE\n]", "1", "\"a\"", "a[1e4000]", "a::b", "a()", "a[b]", "a[0].*", "a #c\n.b", "a /*c*/ [0]", "a.b\n", "\na.b", " a . b ", "a[\"\\q\"]", "a[\"\\u12\"]"}

func (k *checker) replay(in string) {
	var probe struct {
		Kind string `json:"kind"`
	}
	if err := json.Unmarshal([]byte(in), &probe); err != nil {
		k.cx.Res.Notes = append(k.cx.Res.Notes, "replay: cannot decode input: "+err.Error())
		return
	}
	switch probe.Kind {
	case "trav":
		var tc travCase
		if err := json.Unmarshal([]byte(in), &tc); err != nil {
			k.cx.Res.Notes = append(k.cx.Res.Notes, "replay: "+err.Error())
			return
		}
		if err := tc.decode(); err != nil {
			k.cx.Res.Notes = append(k.cx.Res.Notes, "replay: "+err.Error())
			return
		}
		k.checkTrav(&tc)
	case "text":
		var sc soupCase
		json.Unmarshal([]byte(in), &sc)
		k.checkSoup(sc.Text)
	case "list", "map", "call":
		var pc partCase
		json.Unmarshal([]byte(in), &pc)
		switch pc.Kind {
		case "list":
			k.checkList(&pc)
		case "map":
			k.checkMap(&pc)
		default:
			k.checkCall(&pc)
		}
	case "type":
		var tc typeCase
		json.Unmarshal([]byte(in), &tc)
		ty, err := ctyjson.UnmarshalType(tc.Type)
		if err != nil {
			k.cx.Res.Notes = append(k.cx.Res.Notes, "replay: "+err.Error())
			return
		}
		k.checkType(ty)
	}
}

// travFromText builds a hand case: the intended steps are read from the text by a tiny independent scanner.
func handTravCase(text string, steps []step) *travCase {
	tc := &travCase{Kind: "trav", Text: text, Steps: steps, vars: map[string]cty.Value{}, parent: map[string]cty.Value{}}
	obj := cty.ObjectVal(map[string]cty.Value{
		"b": cty.ListVal([]cty.Value{cty.StringVal("x"), cty.StringVal("y")}),
		"k": cty.StringVal("kv"),
		"0": cty.StringVal("zero"),
	})
	tc.vars["a"] = obj
	tc.parent["for"] = cty.ObjectVal(map[string]cty.Value{"in": cty.True})
	tc.Vars = map[string]valDoc{"a": encVal(obj)}
	tc.Parent = map[string]valDoc{"for": encVal(tc.parent["for"])}
	return tc
}

func run(cx *lib.Ctx) {
	res := cx.Res
	k := &checker{cx: cx}
	if cx.Replay != "" {
		in := lib.ReplayInput(cx.Replay)
		k.replay(in)
		res.Case(in, true)
		res.Sample(in)
		return
	}
	res.Rule = "(a) random scopes (nested objects/maps/lists/tuples/sets with null, unknown and marked leaves, parent/child contexts) and traversal texts walked along them with deviations (attribute, string/number index, legacy index, whitespace and newlines between steps), read as native expression, tuple element, call argument, object value, attribute and JSON string, compared with the written steps, with evaluation and with an independent reference walk; (b) random texts over the traversal alphabet through ParseTraversalAbs vs the expression parser; (c) random tuple/object/call expressions and JSON arrays/objects/call strings over a fixed scope with a recording function; (d) random type constraints (depth 4 quick / 6 thorough) through TypeString -> TypeConstraint in native and JSON; non-trivial = more than one step / non-empty constructor / non-primitive type, distinct by text"

	corrTypes(cx)
	corrTraversal(cx)

	for _, t := range handSoups {
		k.checkSoup(t)
		res.Case("text:"+t, true)
	}
	for _, t := range handTravTexts {
		k.checkSoup(t)
		res.Case("text:"+t, true)
	}
	hand := []*travCase{
		handTravCase("a.b[1]", []step{{"root", "a"}, {"attr", "b"}, {"idxnum", "1"}}),
		handTravCase("a.b.1", []step{{"root", "a"}, {"attr", "b"}, {"legacy", "1"}}),
		handTravCase("a\n.b\n[\n\"0\"\n]", []step{{"root", "a"}, {"attr", "b"}, {"idxstr", "0"}}),
		handTravCase("a.0", []step{{"root", "a"}, {"legacy", "0"}}),
		handTravCase("a[\"k\"]", []step{{"root", "a"}, {"idxstr", "k"}}),
		handTravCase("a.zz", []step{{"root", "a"}, {"attr", "zz"}}),
		handTravCase("a.b[2]", []step{{"root", "a"}, {"attr", "b"}, {"idxnum", "2"}}),
		handTravCase("for.in", []step{{"root", "for"}, {"attr", "in"}}),
		handTravCase("nope", []step{{"root", "nope"}}),
		handTravCase("true", []step{{"root", "true"}}),
		handTravCase("null.a", []step{{"root", "null"}, {"attr", "a"}}),
	}
	for _, tc := range hand {
		k.checkTrav(tc)
		res.Case("trav:"+tc.Text, true)
	}

	na := cx.Scale(14000, 600000)
	for i := 0; i < na; i++ {
		r := cx.R.Fork()
		tc := genTravCase(r)
		for _, s := range tc.Steps[1:] {
			res.Count("step:" + s.K)
		}
		if hasTopLevelNewline(tc.Text) {
			res.Count("trav:newline-between-steps")
		}
		k.checkTrav(tc)
		res.Case(canon("trav:"+tc.Text+"|"+tc.input()), len(tc.Steps) > 1)
		if i < 2 {
			res.Sample(json.RawMessage(tc.input()))
		}
	}
	nb := cx.Scale(40000, 2000000)
	for i := 0; i < nb; i++ {
		r := cx.R.Fork()
		t := genSoup(r)
		k.checkSoup(t)
		res.Case("text:"+t, true)
	}
	nc := cx.Scale(10000, 500000)
	for i := 0; i < nc; i++ {
		r := cx.R.Fork()
		g := &eg{r: r}
		var pc partCase
		switch r.Intn(6) {
		case 0:
			pc = partCase{Kind: "list", Syntax: "native", Text: g.tupleText(2, true)}
		case 1:
			pc = partCase{Kind: "map", Syntax: "native", Text: g.objectText(2, true)}
		case 2:
			t, name, n, exp := g.callText(2)
			pc = partCase{Kind: "call", Syntax: "native", Text: t, Name: name, NArgs: n, Expand: exp}
		case 3:
			pc = partCase{Kind: "list", Syntax: "json", Text: g.jsonArray(2)}
		case 4:
			pc = partCase{Kind: "map", Syntax: "json", Text: g.jsonObject(2)}
		default:
			t, name, n, exp := g.callText(2)
			pc = partCase{Kind: "call", Syntax: "json", Text: t, Name: name, NArgs: n, Expand: exp}
		}
		res.Count("parts:" + pc.Kind + ":" + pc.Syntax)
		switch pc.Kind {
		case "list":
			k.checkList(&pc)
		case "map":
			k.checkMap(&pc)
		default:
			k.checkCall(&pc)
		}
		res.Case(canon(pc.Kind+":"+pc.Syntax+":"+pc.Text), len(pc.Text) > 2)
		if i < 2 {
			res.Sample(json.RawMessage(pc.input()))
		}
	}
	malformedStatic(k)
	nd := cx.Scale(12000, 600000)
	maxDepth := 4
	if cx.Thorough() {
		maxDepth = 6
	}
	for _, ty := range handTypes() {
		k.checkType(ty)
		res.Case("type:"+lib.DumpType(ty), true)
	}
	for i := 0; i < nd; i++ {
		r := cx.R.Fork()
		ty := genConstraintType(r, 1+r.Intn(maxDepth))
		res.Count("type-depth-" + string(rune('0'+typeDepth(ty))))
		if firstAttrIs(ty, "for") {
			res.Count("type:first-attr-for")
		}
		k.checkType(ty)
		res.Case(canon("type:"+lib.DumpType(ty)), !ty.IsPrimitiveType() && ty != cty.DynamicPseudoType)
	}
}

// canon shortens long canonical texts to a digest (the distinct-case set keeps every key in memory).
func canon(s string) string {
	if len(s) <= 48 {
		return s
	}
	h := sha1.Sum([]byte(s))
	return hex.EncodeToString(h[:])
}

func handTypes() []cty.Type {
	out := []cty.Type{cty.String, cty.Number, cty.Bool, cty.DynamicPseudoType, cty.EmptyObject, cty.EmptyTuple,
		cty.List(cty.DynamicPseudoType), cty.Map(cty.List(cty.Set(cty.String))),
		cty.Tuple([]cty.Type{cty.String, cty.DynamicPseudoType, cty.EmptyObject}),
	}
	for _, n := range []string{"for", "if", "in", "null", "true", "false", "string", "optional", "any", "list"} {
		out = append(out, cty.Object(map[string]cty.Type{n: cty.String}))
		out = append(out, cty.Object(map[string]cty.Type{"a": cty.Number, n: cty.String}))
		out = append(out, cty.List(cty.Object(map[string]cty.Type{n: cty.Object(map[string]cty.Type{n: cty.Bool})})))
	}
	return out
}
