package c20

import (
	"fmt"
	"strings"

	"github.com/hashicorp/hcl/v2"
	"github.com/hashicorp/hcl/v2/ext/typeexpr"
	"github.com/hashicorp/hcl/v2/hclsyntax"
	hcljson "github.com/hashicorp/hcl/v2/json"

	"hx/lib"
)

// damage makes a near-miss of a well-formed text: the kind of error the native parser recovers from while
// still building something (junk after the end, an extra or a missing closer, a missing separator).
func damage(r *lib.Rand, s string) (string, string) {
	switch r.Intn(9) {
	case 0:
		return s + " junk", "junk-after"
	case 1:
		return s + ")", "extra-closer"
	case 2:
		if i := strings.LastIndexAny(s, ")]}"); i >= 0 {
			return s[:i] + s[i+1:], "missing-closer"
		}
	case 3:
		if i := strings.Index(s, ","); i >= 0 {
			return s[:i] + " " + s[i+1:], "missing-comma"
		}
	case 4:
		return s + ",", "trailing-comma-outside"
	case 5:
		if i := strings.IndexAny(s, "([{"); i >= 0 {
			return s[:i+1] + s[i:], "doubled-opener"
		}
	case 6:
		return s + " " + s, "twice"
	case 7:
		if i := strings.Index(s, "="); i >= 0 {
			return s[:i] + s[i+1:], "missing-equals"
		}
	default:
		return s + "]", "extra-bracket"
	}
	return s + " +", "dangling-operator"
}

// malformedStatic: the static views of a JSON string whose content is NOT a valid native expression.  The JSON
// syntax specification ties every static analysis of a string to the native parser: when the content cannot be
// parsed as a native expression there is no static call, no type constraint, and — by the stand-alone
// traversal parser — no static traversal.  When the damaged text happens to be valid, the two syntaxes must
// still agree.
func malformedStatic(k *checker) {
	cx := k.cx
	res := cx.Res
	n := cx.Scale(6000, 200000)
	maxDepth := 3
	for i := 0; i < n; i++ {
		r := cx.R.Fork()
		var good, kind string
		switch r.Intn(3) {
		case 0:
			good, kind = typeexpr.TypeString(genConstraintType(r, 1+r.Intn(maxDepth))), "type"
		case 1:
			g := &eg{r: r}
			good, _, _, _ = g.callText(2)
			kind = "call"
		default:
			good, kind = genTravCase(r).Text, "traversal"
		}
		text, how := damage(r, good)
		in := fmt.Sprintf("%s (%s, %s)", text, kind, how)
		res.Count("malformed:" + kind + ":" + how)
		cx.Guard("malformed-static", in, func() {
			ne, nd := hclsyntax.ParseExpression([]byte(text), "", hcl.InitialPos)
			nativeOK := !nd.HasErrors()
			je, jd := hcljson.ParseExpression(jsonQuote(text), "")
			if jd.HasErrors() {
				k.fail("json-parse", "JSON string rejected: "+jd.Error(), in, text)
				return
			}
			if nativeOK {
				res.Count("malformed:still-valid")
			}
			// static call
			jc, jcd := hcl.ExprCall(je)
			var nc *hcl.StaticCall
			ncOK := false
			if nativeOK {
				var ncd hcl.Diagnostics
				nc, ncd = hcl.ExprCall(ne)
				ncOK = !ncd.HasErrors()
			}
			switch {
			case !jcd.HasErrors() && !ncOK:
				why := "is not a call in the native syntax"
				if !nativeOK {
					why = "is not even a valid native expression"
				}
				k.fail("exprcall:json-accepts-what-native-rejects:"+how, fmt.Sprintf("hcl.ExprCall of the JSON string succeeds (%s with %d arguments) although the same text %s", jc.Name, len(jc.Arguments), why), in, text)
				return
			case jcd.HasErrors() && ncOK:
				k.fail("exprcall:json-rejects-what-native-accepts:"+how, "hcl.ExprCall of the JSON string fails although the same text is a call in the native syntax: "+jcd.Error(), in, text)
				return
			case ncOK && (jc.Name != nc.Name || len(jc.Arguments) != len(nc.Arguments)):
				k.fail("exprcall:differs:"+how, fmt.Sprintf("static call differs: JSON %s/%d, native %s/%d", jc.Name, len(jc.Arguments), nc.Name, len(nc.Arguments)), in, text)
				return
			}
			// type constraint
			jt, jtd := typeexpr.TypeConstraint(je)
			ntOK := false
			if nativeOK {
				nt, ntd := typeexpr.TypeConstraint(ne)
				ntOK = !ntd.HasErrors()
				if ntOK && !jtd.HasErrors() && !nt.Equals(jt) {
					k.fail("typeconstraint:differs:"+how, "type constraint differs between the syntaxes: JSON "+lib.DumpType(jt)+", native "+lib.DumpType(nt), in, text)
					return
				}
			}
			if !jtd.HasErrors() && !ntOK {
				k.fail("typeconstraint:json-accepts-what-native-rejects:"+how, "typeexpr.TypeConstraint of the JSON string succeeds ("+lib.DumpType(jt)+") although the same text is rejected in the native syntax", in, text)
				return
			}
			if jtd.HasErrors() && ntOK {
				k.fail("typeconstraint:json-rejects-what-native-accepts:"+how, "typeexpr.TypeConstraint of the JSON string fails although the native text is accepted: "+jtd.Error(), in, text)
				return
			}
			// static traversal: the JSON side is defined by the stand-alone traversal parser
			_, sd := hclsyntax.ParseTraversalAbs([]byte(text), "", hcl.InitialPos)
			_, jtrd := hcl.AbsTraversalForExpr(je)
			if sd.HasErrors() != jtrd.HasErrors() {
				k.fail("json-static-vs-standalone:malformed:"+how, fmt.Sprintf("JSON static traversal ok=%v, ParseTraversalAbs ok=%v", !jtrd.HasErrors(), !sd.HasErrors()), in, text)
				return
			}
			if kw := hcl.ExprAsKeyword(je); kw != "" && sd.HasErrors() {
				k.fail("keyword:malformed:"+how, fmt.Sprintf("ExprAsKeyword returns %q for a text that is no traversal", kw), in, text)
			}
		})
		res.Case(canon("malformed:"+text), true)
	}
}
