package c20

import (
	"fmt"
	"math/big"
	"strconv"
	"strings"

	"github.com/hashicorp/hcl/v2"
	"github.com/hashicorp/hcl/v2/hclsyntax"
	"github.com/hashicorp/hcl/v2/hclwrite"
	"github.com/zclconf/go-cty/cty"

	"hx/lib"
)

// TRAV ties HclModel/Syntax/Traversal.lean to the code: random token strings over the traversal alphabet are
// rendered to text and read by hclsyntax.ParseTraversalAbs and by hclsyntax.ParseExpression + hcl.AbsTraversalForExpr;
// both answers are compared with the model's `standalone` and `viaExpression`. A second stream writes random
// traversals with hclwrite.TokensForTraversal and compares the generated tokens and both readings with `gen`.

var travNums = []string{"0", "1", "7", "42", "1.5", "0.25", "10"}
var travIdents = []string{"a", "b", "foo", "true", "null", "for", "x1", "é"}

// raw contents of quoted strings (as written between the quotes) — literal and not
var travStrs = []string{"k", "a b", `\n`, `$${x}`, `%%{y}`, `é`, "", `a\"b`, "${x}", "%{if}", `x\`, "a.b", "0", "*"}
var travJunk = []string{"+", "?", ",", ")", "==", "(", "-", "!", "=", ":"}

func dotCps(s string) string {
	rs := []rune(s)
	parts := make([]string, len(rs))
	for i, r := range rs {
		parts[i] = strconv.Itoa(int(r))
	}
	return strings.Join(parts, ".")
}

func showTraversal(t hcl.Traversal) string {
	if len(t) == 0 {
		return "none"
	}
	var parts []string
	for i, s := range t {
		switch st := s.(type) {
		case hcl.TraverseRoot:
			if i != 0 {
				return "bad-root-position"
			}
			parts = append(parts, "r"+dotCps(st.Name))
		case hcl.TraverseAttr:
			parts = append(parts, "a"+dotCps(st.Name))
		case hcl.TraverseIndex:
			k := st.Key
			switch {
			case !k.IsKnown() || k.IsNull():
				parts = append(parts, "k?")
			case k.Type() == cty.String:
				parts = append(parts, "ks"+dotCps(k.AsString()))
			case k.Type() == cty.Number:
				id := -1
				for j, n := range travNums {
					want, _, _ := big.ParseFloat(n, 10, 512, big.ToNearestEven)
					if want.Cmp(k.AsBigFloat()) == 0 {
						id = j
					}
				}
				parts = append(parts, fmt.Sprintf("kn%d", id))
			default:
				parts = append(parts, "k?")
			}
		default:
			return "other-step"
		}
	}
	return strings.Join(parts, "/")
}

func travAnswers(cx *lib.Ctx, src []byte) (string, bool) {
	s, e := "none", "none"
	ok := cx.Guard("trav", string(src), func() {
		if t, diags := hclsyntax.ParseTraversalAbs(src, "", hcl.InitialPos); !diags.HasErrors() {
			s = showTraversal(t)
		}
		if ex, diags := hclsyntax.ParseExpression(src, "", hcl.InitialPos); !diags.HasErrors() {
			if t, d2 := hcl.AbsTraversalForExpr(ex); !d2.HasErrors() {
				e = showTraversal(t)
			}
		}
	})
	return "S=" + s + " E=" + e, ok
}

func corrTraversal(cx *lib.Ctx) {
	if !cx.HasModel() {
		return
	}
	res := cx.Res
	n := cx.Scale(4000, 100000)
	for i := 0; i < n; i++ {
		r := cx.R.Fork()
		var toks, text []string
		add := func(tok, txt string) { toks = append(toks, tok); text = append(text, txt) }
		id := travIdents[r.Intn(len(travIdents))]
		if r.Chance(1, 30) {
			add("nl", "\n")
		}
		if r.Chance(29, 30) {
			add("i"+dotCps(id), id)
		}
		for k := r.Intn(6); k > 0; k-- {
			if r.Chance(1, 8) {
				add("nl", "\n")
			}
			switch c := r.Intn(20); {
			case c < 6:
				a := travIdents[r.Intn(len(travIdents))]
				add(".", ".")
				if r.Chance(1, 10) {
					add("nl", "\n")
				}
				add("i"+dotCps(a), a)
			case c < 8:
				j := r.Intn(len(travNums))
				add(".", ".")
				d := "0"
				if strings.Contains(travNums[j], ".") {
					d = "1"
				}
				add(fmt.Sprintf("n%d:%s", j, d), travNums[j])
			case c < 13:
				j := r.Intn(len(travNums))
				d := "0"
				if strings.Contains(travNums[j], ".") {
					d = "1"
				}
				add("[", "[")
				if r.Chance(1, 5) {
					add("nl", "\n")
				}
				add(fmt.Sprintf("n%d:%s", j, d), travNums[j])
				if r.Chance(1, 5) {
					add("nl", "\n")
				}
				if r.Chance(14, 15) {
					add("]", "]")
				}
			case c < 17:
				sv := travStrs[r.Intn(len(travStrs))]
				add("[", "[")
				add("s"+dotCps(sv), "\""+sv+"\"")
				if r.Chance(14, 15) {
					add("]", "]")
				}
			case c == 17:
				add("[", "[")
				add("*", "*")
				add("]", "]")
			case c == 18:
				add(".", ".")
				add("*", "*")
			default:
				add("j", travJunk[r.Intn(len(travJunk))])
			}
		}
		if len(toks) == 0 {
			continue
		}
		src := []byte(strings.Join(text, " "))
		// the model's token view is the real scanner's: a quoted string whose content is cut into several tokens, or
		// that does not end where it was meant to, changes the token string — such cases are skipped
		if !travTokensMatch(src, toks) {
			res.Count("trav:scanner-view-differs")
			continue
		}
		impl, ok := travAnswers(cx, src)
		if !ok {
			continue
		}
		model := cx.Ask("TRAV " + strings.Join(toks, " "))
		res.CorrChecked++
		if strings.HasPrefix(impl, "S=none") {
			res.Count("trav:standalone-rejects")
		} else {
			res.Count("trav:standalone-accepts")
		}
		if model != impl {
			res.Fail(lib.Failure{Kind: "corr", Key: "TRAV", Desc: "the stand-alone traversal parser / the expression parser read a token string differently from the model", Input: string(src), Model: model, Impl: impl})
		}
	}
	// writing: TokensForTraversal
	for i := 0; i < n/4; i++ {
		r := cx.R.Fork()
		root := travIdents[r.Intn(len(travIdents))]
		trav := hcl.Traversal{hcl.TraverseRoot{Name: root}}
		want := []string{"r" + dotCps(root)}
		for k := r.Intn(5); k > 0; k-- {
			switch r.Intn(3) {
			case 0:
				a := travIdents[r.Intn(len(travIdents))]
				trav = append(trav, hcl.TraverseAttr{Name: a})
				want = append(want, "a"+dotCps(a))
			case 1:
				j := r.Intn(len(travNums))
				v, _ := cty.ParseNumberVal(travNums[j])
				trav = append(trav, hcl.TraverseIndex{Key: v})
				want = append(want, fmt.Sprintf("kn%d", j))
			default:
				s := []string{"k", "a b", "\n", "${x}", "%{y}", "é", "", "a\"b", "$${", "\x00", "for"}[r.Intn(11)]
				trav = append(trav, hcl.TraverseIndex{Key: cty.StringVal(s)})
				want = append(want, "ks"+dotCps(s))
			}
		}
		var src []byte
		if !cx.Guard("tokens-for-traversal", strings.Join(want, "/"), func() { src = hclwrite.TokensForTraversal(trav).Bytes() }) {
			continue
		}
		impl, ok := travAnswers(cx, src)
		if !ok {
			continue
		}
		res.CorrChecked++
		res.Count("trav:written")
		// theorem traversal_readback: both readers give the traversal back
		if exp := "S=" + strings.Join(want, "/") + " E=" + strings.Join(want, "/"); impl != exp {
			res.Fail(lib.Failure{Kind: "corr", Key: "TRAV:readback", Desc: "a traversal written by TokensForTraversal is not read back by both parsers as the model proves (traversal_readback)", Input: string(src), Model: exp, Impl: impl})
		}
	}
}

// travTokensMatch: does the real scanner see the token string the model is given?
func travTokensMatch(src []byte, toks []string) bool {
	real, _ := hclsyntax.LexExpression(src, "", hcl.InitialPos)
	var kinds []string
	for i := 0; i < len(real); i++ {
		tk := real[i]
		switch tk.Type {
		case hclsyntax.TokenEOF:
		case hclsyntax.TokenIdent:
			kinds = append(kinds, "i")
		case hclsyntax.TokenDot:
			kinds = append(kinds, ".")
		case hclsyntax.TokenOBrack:
			kinds = append(kinds, "[")
		case hclsyntax.TokenCBrack:
			kinds = append(kinds, "]")
		case hclsyntax.TokenNumberLit:
			kinds = append(kinds, "n")
		case hclsyntax.TokenStar:
			kinds = append(kinds, "*")
		case hclsyntax.TokenNewline:
			kinds = append(kinds, "nl")
		case hclsyntax.TokenOQuote:
			// up to the matching close quote at nesting depth 0
			depth := 0
			j := i + 1
			for ; j < len(real); j++ {
				if real[j].Type == hclsyntax.TokenTemplateInterp || real[j].Type == hclsyntax.TokenTemplateControl {
					depth++
				}
				if real[j].Type == hclsyntax.TokenTemplateSeqEnd {
					depth--
				}
				if real[j].Type == hclsyntax.TokenCQuote && depth <= 0 {
					break
				}
			}
			if j >= len(real) {
				return false
			}
			kinds = append(kinds, "s")
			i = j
		default:
			kinds = append(kinds, "j")
		}
	}
	if len(kinds) != len(toks) {
		return false
	}
	for i, t := range toks {
		k := t
		if len(t) > 1 && t != "nl" {
			k = t[:1]
		}
		if k != kinds[i] {
			return false
		}
	}
	return true
}
