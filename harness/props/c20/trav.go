package c20

import (
	"encoding/json"
	"fmt"
	"sort"
	"strings"

	"github.com/hashicorp/hcl/v2"
	"github.com/hashicorp/hcl/v2/hclsyntax"
	hcljson "github.com/hashicorp/hcl/v2/json"
	"github.com/zclconf/go-cty/cty"

	"hx/lib"
)

// travCase is a replayable case of parts (a) and (b).
type travCase struct {
	Kind   string            `json:"kind"` // "trav"
	Text   string            `json:"text"` // the traversal-shaped source text (may contain newlines between steps)
	Steps  []step            `json:"steps"`
	Vars   map[string]valDoc `json:"vars"`
	Parent map[string]valDoc `json:"parent,omitempty"`
	NilMid bool              `json:"nilmid,omitempty"` // an intermediate context without a variables map
	vars   map[string]cty.Value
	parent map[string]cty.Value
}

var rootPool = []string{"a", "b", "foo", "x-y", "v", "each", "in", "if", "for", "null_", "t1", "é", "self"}
var keywordRoots = []string{"null", "true", "false"}

// quoteKey renders a string as an HCL quoted literal, choosing between raw and escaped forms.
func quoteKey(r *lib.Rand, s string) string {
	var sb strings.Builder
	sb.WriteByte('"')
	rs := []rune(s)
	for i, c := range rs {
		switch {
		case c == '"':
			sb.WriteString(`\"`)
		case c == '\\':
			sb.WriteString(`\\`)
		case c == '\n':
			sb.WriteString(`\n`)
		case c == '\r':
			sb.WriteString(`\r`)
		case c == '\t' && r.Chance(1, 2):
			sb.WriteString(`\t`)
		case (c == '$' || c == '%') && i+1 < len(rs) && rs[i+1] == '{':
			sb.WriteRune(c)
			sb.WriteRune(c)
		case c < 32 || c == 0x7f:
			fmt.Fprintf(&sb, `\u%04x`, c)
		case c > 0x7f && r.Chance(1, 3):
			if c < 0x10000 {
				fmt.Fprintf(&sb, `\u%04x`, c)
			} else {
				fmt.Fprintf(&sb, `\U%08x`, c)
			}
		default:
			sb.WriteRune(c)
		}
	}
	sb.WriteByte('"')
	return sb.String()
}

func ws(r *lib.Rand, nl bool) string {
	switch r.Weighted([]int{12, 3, 1, 2}) {
	case 0:
		return ""
	case 1:
		return " "
	case 2:
		return "\t "
	default:
		if nl {
			return pick(r, []string{"\n", "\n  ", " \n", "\r\n", "\n\n"})
		}
		return "  "
	}
}

// renderSteps renders the intended steps as source text. With nl, newlines may appear between steps
// (the text is then only valid where newlines are insignificant); newlines inside brackets are always allowed.
func renderSteps(r *lib.Rand, steps []step, nl bool) string {
	var sb strings.Builder
	prevLegacy := false
	for _, st := range steps {
		switch st.K {
		case "root":
			sb.WriteString(st.S)
		case "attr":
			sb.WriteString(ws(r, nl))
			sb.WriteString(".")
			sb.WriteString(ws(r, nl))
			sb.WriteString(st.S)
		case "legacy":
			g := ws(r, nl)
			if prevLegacy && g == "" {
				g = " " // a.0.1 would lex as the number 0.1
			}
			sb.WriteString(g)
			sb.WriteString(".")
			sb.WriteString(st.S)
		case "idxnum":
			sb.WriteString(ws(r, nl))
			sb.WriteString("[")
			sb.WriteString(ws(r, true))
			sb.WriteString(st.S)
			sb.WriteString(ws(r, true))
			sb.WriteString("]")
		case "idxstr":
			sb.WriteString(ws(r, nl))
			sb.WriteString("[")
			sb.WriteString(ws(r, true))
			sb.WriteString(quoteKey(r, st.S))
			sb.WriteString(ws(r, true))
			sb.WriteString("]")
		}
		prevLegacy = st.K == "legacy"
	}
	return sb.String()
}

// intendedTraversal is the hcl.Traversal the steps denote.
func intendedTraversal(steps []step) hcl.Traversal {
	var t hcl.Traversal
	for _, st := range steps {
		switch st.K {
		case "root":
			t = append(t, hcl.TraverseRoot{Name: st.S})
		case "attr":
			t = append(t, hcl.TraverseAttr{Name: st.S})
		case "idxstr":
			t = append(t, hcl.TraverseIndex{Key: cty.StringVal(st.S)})
		case "idxnum", "legacy":
			v, err := cty.ParseNumberVal(st.S)
			if err != nil {
				panic("harness: number text " + st.S)
			}
			t = append(t, hcl.TraverseIndex{Key: v})
		}
	}
	return t
}

var numTexts = []string{"0", "1", "2", "3", "5", "10", "0.5", "1.0", "1e0", "2.5", "1e2", "007", "18446744073709551616", "0.0"}

// genSteps walks a scope value, mostly along existing paths, with deviations.
func genSteps(r *lib.Rand, rootName string, rootVal cty.Value, have bool) []step {
	steps := []step{{K: "root", S: rootName}}
	cur, ok := rootVal, have
	n := r.Weighted([]int{2, 4, 4, 3, 2, 1})
	for i := 0; i < n; i++ {
		var st step
		var u cty.Value
		if ok {
			u, _ = cur.Unmark()
		}
		followable := ok && u.IsKnown() && !u.IsNull() && u.Type() != cty.DynamicPseudoType
		deviate := r.Chance(1, 7)
		if ok && !followable && r.Chance(3, 4) {
			break // nothing below a primitive, null or unknown value: usually stop here
		}
		switch {
		case followable && !deviate && (u.Type().IsObjectType() || u.Type().IsMapType()) && u.LengthInt() > 0:
			var keys []string
			for it := u.ElementIterator(); it.Next(); {
				k, _ := it.Element()
				ku, _ := k.Unmark()
				keys = append(keys, ku.AsString())
			}
			sort.Strings(keys)
			k := keys[r.Intn(len(keys))]
			switch {
			case hclsyntax.ValidIdentifier(k) && r.Chance(2, 3):
				st = step{K: "attr", S: k}
			case isPlainInt(k) && r.Chance(1, 2):
				st = step{K: pick(r, []string{"idxnum", "legacy"}), S: k}
			default:
				st = step{K: "idxstr", S: k}
			}
		case followable && !deviate && (u.Type().IsListType() || u.Type().IsTupleType()) && u.LengthInt() > 0:
			i := r.Intn(u.LengthInt())
			st = step{K: pick(r, []string{"idxnum", "idxnum", "legacy", "idxstr"}), S: fmt.Sprint(i)}
		default:
			switch r.Weighted([]int{4, 3, 3, 2}) {
			case 0:
				st = step{K: "attr", S: pick(r, attrPool[:13])}
			case 1:
				st = step{K: "idxstr", S: pick(r, append(keyPool, attrPool...))}
			case 2:
				st = step{K: "idxnum", S: pick(r, numTexts)}
			default:
				st = step{K: "legacy", S: pick(r, []string{"0", "1", "2", "7", "10", "007"})}
			}
		}
		steps = append(steps, st)
		if ok {
			// follow with the reference walk where it is defined, else stop following
			nv, o := refStep(cur, st)
			if o == refValue {
				cur = nv
			} else {
				ok = false
			}
		}
	}
	return steps
}

func genTravCase(r *lib.Rand) *travCase {
	tc := &travCase{Kind: "trav", vars: map[string]cty.Value{}, parent: map[string]cty.Value{}}
	nvars := 1 + r.Intn(4)
	for i := 0; i < nvars; i++ {
		name := pick(r, rootPool)
		if r.Chance(1, 12) {
			name = pick(r, keywordRoots)
		}
		v := genScopeValue(r, 3)
		for try := 0; try < 6 && r.Chance(5, 6); try++ {
			// variables are mostly structures worth traversing
			if u, _ := v.Unmark(); u.IsKnown() && !u.IsNull() && (u.Type().IsObjectType() || u.Type().IsMapType() || u.Type().IsListType() || u.Type().IsTupleType()) && u.LengthInt() > 0 {
				break
			}
			v = genScopeValue(r, 3)
		}
		if r.Chance(1, 4) {
			tc.parent[name] = v
		} else {
			tc.vars[name] = v
		}
	}
	tc.NilMid = r.Chance(1, 5)
	if r.Chance(1, 5) {
		// a child variable shadowing a parent variable of the same name
		var ks []string
		for k := range tc.vars {
			ks = append(ks, k)
		}
		sort.Strings(ks)
		for _, k := range ks {
			tc.parent[k] = genScopeValue(r, 2)
		}
	}
	// choose the root: usually a defined variable
	var names []string
	for k := range tc.vars {
		names = append(names, k)
	}
	for k := range tc.parent {
		if _, dup := tc.vars[k]; !dup {
			names = append(names, k)
		}
	}
	sort.Strings(names)
	var rootName string
	var rootVal cty.Value
	have := false
	switch {
	case r.Chance(1, 10):
		rootName = pick(r, rootPool)
	case r.Chance(1, 15):
		rootName = pick(r, keywordRoots)
	default:
		rootName = names[r.Intn(len(names))]
	}
	if v, ok := tc.vars[rootName]; ok {
		rootVal, have = v, true
	} else if v, ok := tc.parent[rootName]; ok {
		rootVal, have = v, true
	}
	tc.Steps = genSteps(r, rootName, rootVal, have)
	tc.Text = renderSteps(r, tc.Steps, r.Chance(1, 3))
	tc.Vars = map[string]valDoc{}
	for k, v := range tc.vars {
		tc.Vars[k] = encVal(v)
	}
	if len(tc.parent) > 0 {
		tc.Parent = map[string]valDoc{}
		for k, v := range tc.parent {
			tc.Parent[k] = encVal(v)
		}
	}
	return tc
}

func (tc *travCase) decode() error {
	tc.vars, tc.parent = map[string]cty.Value{}, map[string]cty.Value{}
	for k, d := range tc.Vars {
		v, err := decVal(d)
		if err != nil {
			return err
		}
		tc.vars[k] = v
	}
	for k, d := range tc.Parent {
		v, err := decVal(d)
		if err != nil {
			return err
		}
		tc.parent[k] = v
	}
	return nil
}

func (tc *travCase) input() string {
	b, err := json.Marshal(tc)
	if err != nil {
		panic(err)
	}
	return string(b)
}

// ctx builds the evaluation context chain: child (vars) -> [context without variables] -> parent.
func (tc *travCase) ctx() *hcl.EvalContext {
	root := &hcl.EvalContext{Variables: tc.parent}
	if len(tc.parent) == 0 && tc.Parent == nil {
		root = &hcl.EvalContext{Variables: map[string]cty.Value{}}
	}
	mid := root
	if tc.NilMid {
		mid = root.NewChild()
	}
	child := mid.NewChild()
	child.Variables = tc.vars
	return child
}

func hasTopLevelNewline(text string) bool {
	depth := 0
	inStr := false
	for i := 0; i < len(text); i++ {
		c := text[i]
		switch {
		case inStr:
			if c == '\\' {
				i++
			} else if c == '"' {
				inStr = false
			}
		case c == '"':
			inStr = true
		case c == '[':
			depth++
		case c == ']':
			depth--
		case (c == '\n' || c == '\r') && depth == 0:
			return true
		}
	}
	return false
}

func stepShape(steps []step) string {
	var parts []string
	for _, s := range steps {
		parts = append(parts, s.K)
	}
	return strings.Join(parts, ",")
}

func firstDiffStep(steps []step, want, got hcl.Traversal) string {
	for i := range want {
		if i >= len(got) {
			return steps[i].K + "-missing"
		}
		if lib.DumpTraversal(want[i:i+1]) != lib.DumpTraversal(got[i:i+1]) {
			g := "other"
			switch got[i].(type) {
			case hcl.TraverseRoot:
				g = "root"
			case hcl.TraverseAttr:
				g = "attr"
			case hcl.TraverseIndex:
				g = "index"
			case hcl.TraverseSplat:
				g = "splat"
			}
			return steps[i].K + "-as-" + g
		}
	}
	return "extra-steps"
}

func (k *checker) fail(key, desc, input, impl string) {
	k.cx.Res.Fail(lib.Failure{Kind: "oracle", Key: key, Desc: desc, Input: input, Impl: lib.Trunc(impl, 1500)})
}

func outcome(v cty.Value, d hcl.Diagnostics) string {
	if d.HasErrors() {
		return "error(" + d[0].Summary + ") " + lib.DumpValue(v)
	}
	return "ok " + lib.DumpValue(v)
}

// agree compares an evaluation outcome with a static-traversal outcome: same error/no-error, same value.
func agree(v1 cty.Value, d1 hcl.Diagnostics, v2 cty.Value, d2 hcl.Diagnostics) string {
	if d1.HasErrors() != d2.HasErrors() {
		return "error-outcome"
	}
	if lib.DumpValue(v1) != lib.DumpValue(v2) {
		return "value"
	}
	return ""
}

// checkStaticTraversal runs part (a) for one expression that should be the traversal-shaped text.
func (k *checker) checkStaticTraversal(tc *travCase, e hcl.Expression, where string, in string) bool {
	want := intendedTraversal(tc.Steps)
	shape := stepShape(tc.Steps)
	ctx := tc.ctx()
	got, diags := hcl.AbsTraversalForExpr(e)
	if diags.HasErrors() {
		k.fail("abs-traversal-rejected:"+where, fmt.Sprintf("AbsTraversalForExpr rejects a traversal-shaped expression (%s; %T): %s", shape, e, diags.Error()), in, tc.Text)
		return false
	}
	if lib.DumpTraversal(got) != lib.DumpTraversal(want) {
		k.fail("static-traversal-steps:"+firstDiffStep(tc.Steps, want, got)+":"+where, "AbsTraversalForExpr returns steps different from the ones written", in, "got  "+lib.DumpTraversal(got)+"\nwant "+lib.DumpTraversal(want))
		return false
	}
	// the traversal handed out is the caller's to work with: splitting it and joining the parts with other
	// steps (building a sibling reference) gives the joined traversal and leaves everything else as it was —
	// the expression's own static traversal, and the one obtained before
	if len(got) >= 2 {
		before := lib.DumpTraversal(got)
		sp := got.SimpleSplit()
		other := hcl.Traversal{hcl.TraverseAttr{Name: "zz_sibling"}}
		joined := hcl.TraversalJoin(sp.Abs, other)
		wantJoined := lib.DumpTraversal(append(hcl.Traversal{want[0]}, other...))
		again, _ := hcl.AbsTraversalForExpr(e)
		switch {
		case lib.DumpTraversal(joined) != wantJoined:
			k.fail("traversal-join:result:"+where, "TraversalJoin(split.Abs, rel) is not the root followed by rel", in, "got  "+lib.DumpTraversal(joined)+"\nwant "+wantJoined)
			return false
		case lib.DumpTraversal(got) != before:
			k.fail("traversal-join:earlier-result-changed:"+where, "joining the root of a static traversal with other steps changed the traversal obtained before", in, "now  "+lib.DumpTraversal(got)+"\nwas  "+before)
			return false
		case lib.DumpTraversal(again) != before:
			k.fail("traversal-join:expression-changed:"+where, "joining the root of a static traversal with other steps changed the expression's static traversal", in, "now  "+lib.DumpTraversal(again)+"\nwas  "+before)
			return false
		case lib.DumpTraversal(sp.Join()) != before:
			k.fail("traversal-join:split-join:"+where, "TraversalSplit.Join() does not give the traversal back", in, lib.DumpTraversal(sp.Join()))
			return false
		}
	}
	rel, diags := hcl.RelTraversalForExpr(e)
	wantRel := append(hcl.Traversal{hcl.TraverseAttr{Name: tc.Steps[0].S}}, want[1:]...)
	if diags.HasErrors() || lib.DumpTraversal(rel) != lib.DumpTraversal(wantRel) || !rel.IsRelative() {
		k.fail("rel-traversal-steps:"+where, "RelTraversalForExpr does not return the written steps with the root as an attribute step", in, "got  "+lib.DumpTraversal(rel)+"\nwant "+lib.DumpTraversal(wantRel))
		return false
	}
	kw := hcl.ExprAsKeyword(e)
	wantKw := ""
	if len(tc.Steps) == 1 {
		wantKw = tc.Steps[0].S
	}
	if kw != wantKw {
		k.fail("keyword:"+where, fmt.Sprintf("ExprAsKeyword returns %q, want %q", kw, wantKw), in, tc.Text)
		return false
	}
	isKeywordRoot := tc.Steps[0].S == "null" || tc.Steps[0].S == "true" || tc.Steps[0].S == "false"
	if isKeywordRoot && where != "json" {
		// null/true/false are literals of the expression language and variables of the traversal language: by design
		k.cx.Res.Count("keyword-root(eval-not-compared)")
		return true
	}
	sv, sd := got.TraverseAbs(ctx)
	if where != "json" && where != "object-key" { // evaluating a key gives a name, not the referenced value
		ev, ed := e.Value(ctx)
		if c := agree(ev, ed, sv, sd); c != "" {
			k.fail("static-vs-eval:"+c+":"+where, "TraverseAbs of the static traversal and Value of the expression disagree", in, "eval   "+outcome(ev, ed)+"\nstatic "+outcome(sv, sd))
			return false
		}
	}
	// reference walk over the scope
	var rootVal cty.Value
	found := false
	if v, ok := tc.vars[tc.Steps[0].S]; ok {
		rootVal, found = v, true
	} else if v, ok := tc.parent[tc.Steps[0].S]; ok {
		rootVal, found = v, true
	}
	if !found {
		k.cx.Res.Count("ref:unknown-variable")
		if !sd.HasErrors() {
			k.fail("reference:undefined-variable-accepted:"+where, "traversal of an undefined variable does not fail", in, outcome(sv, sd))
			return false
		}
		return true
	}
	rv, o := refWalk(rootVal, tc.Steps[1:])
	switch o {
	case refValue:
		k.cx.Res.Count("ref:value")
		if sd.HasErrors() || lib.DumpValue(sv) != lib.DumpValue(rv) {
			k.fail("reference:value:"+where, "traversal result differs from the value at that path of the scope", in, "got  "+outcome(sv, sd)+"\nwant ok "+lib.DumpValue(rv))
			return false
		}
	case refError:
		k.cx.Res.Count("ref:error")
		if !sd.HasErrors() {
			k.fail("reference:error-expected:"+where, "traversal of a missing path (absent attribute, index out of range, null, wrong kind) does not fail", in, "got  "+outcome(sv, sd))
			return false
		}
	default:
		k.cx.Res.Count("ref:unspecified(unknown/marked/odd-key)")
	}
	return true
}

func jsonQuote(s string) []byte {
	b, err := json.Marshal(s)
	if err != nil {
		panic(err)
	}
	return b
}

func (k *checker) checkTrav(tc *travCase) {
	in := tc.input()
	cx := k.cx
	cx.Guard("traversal", in, func() {
		hasLegacy := false
		for _, s := range tc.Steps {
			if s.K == "legacy" {
				hasLegacy = true
			}
		}
		// (a) native expression
		e, diags := hclsyntax.ParseExpression([]byte(tc.Text), "", hcl.InitialPos)
		if diags.HasErrors() {
			k.fail("traversal-text-rejected:expression", "a traversal-shaped text ("+stepShape(tc.Steps)+") does not parse as an expression: "+diags.Error(), in, tc.Text)
			return
		}
		if !k.checkStaticTraversal(tc, e, "expression", in) {
			return
		}
		// inside brackets of a configuration attribute (newlines insignificant), and bare when it has no top-level newline
		wrappers := []string{"x = [\n" + tc.Text + "\n]\n", "x = f(" + tc.Text + ", 1)\n", "x = {\n k = " + oneLine(tc.Text) + "\n}\n"}
		// as an object constructor key (a static reference map): the key's static view is the same traversal
		wrappers = append(wrappers, "x = {\n "+oneLine(tc.Text)+" = 1\n}\n")
		if !hasTopLevelNewline(tc.Text) {
			wrappers = append(wrappers, "x = "+tc.Text+"\n")
		}
		for wi, src := range wrappers {
			if (wi == 0 || wi == 3) && tc.Steps[0].S == "for" {
				// "[for" opens a for expression: the identifier cannot start a tuple element (language design, not a defect)
				cx.Res.Count("tuple-wrapper-skipped(root-for)")
				continue
			}
			f, diags := hclsyntax.ParseConfig([]byte(src), "", hcl.InitialPos)
			if diags.HasErrors() {
				k.fail("traversal-text-rejected:config", "a traversal-shaped text does not parse inside a configuration: "+diags.Error(), in, src)
				return
			}
			var inner hcl.Expression
			ae := f.Body.(*hclsyntax.Body).Attributes["x"].Expr
			where := "attribute"
			switch wi {
			case 0:
				l, d := hcl.ExprList(ae)
				if d.HasErrors() || len(l) != 1 {
					k.fail("exprlist:wrapper", "ExprList of a one-element tuple constructor", in, src)
					return
				}
				inner, where = l[0], "tuple-element"
			case 1:
				c, d := hcl.ExprCall(ae)
				if d.HasErrors() || len(c.Arguments) != 2 {
					k.fail("exprcall:wrapper", "ExprCall of a two-argument call", in, src)
					return
				}
				inner, where = c.Arguments[0], "call-argument"
			case 2:
				m, d := hcl.ExprMap(ae)
				if d.HasErrors() || len(m) != 1 {
					k.fail("exprmap:wrapper", "ExprMap of a one-item object constructor", in, src)
					return
				}
				inner, where = m[0].Value, "object-value"
			case 3:
				if tc.Steps[0].S == "for" {
					cx.Res.Count("key-wrapper-skipped(root-for)")
					continue
				}
				m, d := hcl.ExprMap(ae)
				if d.HasErrors() || len(m) != 1 {
					k.fail("exprmap:wrapper", "ExprMap of a one-item object constructor", in, src)
					return
				}
				inner, where = m[0].Key, "object-key"
			default:
				inner = ae
			}
			if !k.checkStaticTraversal(tc, inner, where, in) {
				return
			}
		}
		// parenthesised: count what the static analysis says; if it accepts, it must agree
		if pe, d := hclsyntax.ParseExpression([]byte("("+tc.Text+")"), "", hcl.InitialPos); !d.HasErrors() {
			if pt, d := hcl.AbsTraversalForExpr(pe); d.HasErrors() {
				cx.Res.Count("parenthesised:not-static")
			} else {
				cx.Res.Count("parenthesised:static")
				if lib.DumpTraversal(pt) != lib.DumpTraversal(intendedTraversal(tc.Steps)) {
					k.fail("static-traversal-steps:parenthesised", "AbsTraversalForExpr of the parenthesised text returns different steps", in, lib.DumpTraversal(pt))
					return
				}
			}
		}
		// (b) the stand-alone traversal parser
		st, sdiags := hclsyntax.ParseTraversalAbs([]byte(tc.Text), "", hcl.InitialPos)
		if sdiags.HasErrors() {
			if hasLegacy {
				cx.Res.Count("standalone-rejects:legacy-index")
			} else {
				cx.Res.Count("standalone-rejects:other")
			}
		} else {
			cx.Res.Count("standalone-accepts")
			if lib.DumpTraversal(st) != lib.DumpTraversal(intendedTraversal(tc.Steps)) {
				k.fail("standalone-vs-expression:"+firstDiffStep(tc.Steps, intendedTraversal(tc.Steps), st), "ParseTraversalAbs and the expression parser read different traversals from the same text", in, "standalone "+lib.DumpTraversal(st)+"\nexpression "+lib.DumpTraversal(intendedTraversal(tc.Steps)))
				return
			}
		}
		// JSON: the string is the traversal text (static view); "${text}" is its evaluation
		je, jd := hcljson.ParseExpression(jsonQuote(tc.Text), "")
		if jd.HasErrors() {
			k.fail("json-parse", "JSON string expression rejected: "+jd.Error(), in, string(jsonQuote(tc.Text)))
			return
		}
		jt, jtd := hcl.AbsTraversalForExpr(je)
		if jtd.HasErrors() != sdiags.HasErrors() {
			k.fail("json-static-vs-standalone", "JSON static traversal succeeds exactly when ParseTraversalAbs accepts the string content", in, tc.Text)
			return
		}
		if !jtd.HasErrors() {
			if !k.checkStaticTraversal(tc, je, "json", in) {
				return
			}
			// the evaluation counterpart in JSON
			isKeywordRoot := tc.Steps[0].S == "null" || tc.Steps[0].S == "true" || tc.Steps[0].S == "false"
			if !isKeywordRoot {
				ie, d := hcljson.ParseExpression(jsonQuote("${"+tc.Text+"}"), "")
				if d.HasErrors() {
					k.fail("json-parse", "JSON string expression rejected: "+d.Error(), in, tc.Text)
					return
				}
				ctx := tc.ctx()
				ev, ed := ie.Value(ctx)
				sv, sd := jt.TraverseAbs(ctx)
				if c := agree(ev, ed, sv, sd); c != "" {
					k.fail("static-vs-eval:"+c+":json", "TraverseAbs of the JSON static traversal and evaluation of \"${…}\" disagree", in, "eval   "+outcome(ev, ed)+"\nstatic "+outcome(sv, sd))
					return
				}
			}
		}
	})
}

// oneLine replaces top-level newlines by spaces (for contexts where a newline would end the expression).
func oneLine(text string) string {
	var sb strings.Builder
	depth := 0
	inStr := false
	for i := 0; i < len(text); i++ {
		c := text[i]
		switch {
		case inStr:
			if c == '\\' && i+1 < len(text) {
				sb.WriteByte(c)
				i++
				c = text[i]
			} else if c == '"' {
				inStr = false
			}
		case c == '"':
			inStr = true
		case c == '[':
			depth++
		case c == ']':
			depth--
		case (c == '\n' || c == '\r') && depth == 0:
			c = ' '
		}
		sb.WriteByte(c)
	}
	return sb.String()
}
