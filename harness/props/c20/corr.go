package c20

import (
	"strings"

	"github.com/hashicorp/hcl/v2"
	"github.com/hashicorp/hcl/v2/ext/typeexpr"
	"github.com/hashicorp/hcl/v2/hclsyntax"

	"hx/lib"
)

// corrTypes ties the Lean type-expression model (HclModel/Syntax/TypeExpr: typeString / parseType) to
// ext/typeexpr: the token texts of TypeString(ty) and whether TypeConstraint reads it back as the same type.
func corrTypes(cx *lib.Ctx) {
	if !cx.HasModel() {
		return
	}
	n := cx.Scale(1500, 60000)
	for i := 0; i < n; i++ {
		r := cx.R.Fork()
		ty := genConstraintType(r, 1+r.Intn(4))
		text := typeexpr.TypeString(ty)
		toks, _ := hclsyntax.LexExpression([]byte(text), "", hcl.InitialPos)
		var parts []string
		asciiIdents := true
		for _, t := range toks {
			if t.Type == hclsyntax.TokenEOF || t.Type == hclsyntax.TokenNewline {
				continue
			}
			parts = append(parts, string(t.Bytes))
			if t.Type != hclsyntax.TokenIdent && len(t.Bytes) > 1 {
				asciiIdents = false // quoted names etc.: outside the model
			}
		}
		if !asciiIdents {
			cx.Res.Count("corr-type-skip:non-identifier-name")
			continue
		}
		back := "unparseable"
		cx.Guard("typeconstraint", text, func() {
			e, diags := hclsyntax.ParseExpression([]byte(text), "", hcl.InitialPos)
			if diags.HasErrors() {
				return
			}
			got, d2 := typeexpr.TypeConstraint(e)
			if d2.HasErrors() {
				return
			}
			if got.Equals(ty) {
				back = "same"
			} else {
				back = "different"
			}
		})
		impl := strings.Join(parts, " ") + " | " + back
		ans := cx.Ask("TYPE " + lib.DumpType(ty))
		if ans == "unsupported-input" {
			cx.Res.Count("corr-type-skip:unsupported")
			continue
		}
		cx.Res.CorrChecked++
		if ans != impl {
			cx.Res.Fail(lib.Failure{Kind: "corr", Key: "TYPE", Desc: "TypeString / TypeConstraint differ from the model", Input: text, Model: lib.Trunc(ans, 400), Impl: lib.Trunc(impl, 400)})
		}
	}
}
