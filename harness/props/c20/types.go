package c20

import (
	"encoding/json"
	"sort"
	"strings"

	"github.com/hashicorp/hcl/v2"
	"github.com/hashicorp/hcl/v2/ext/typeexpr"
	"github.com/hashicorp/hcl/v2/hclsyntax"
	hcljson "github.com/hashicorp/hcl/v2/json"
	"github.com/zclconf/go-cty/cty"
	ctyjson "github.com/zclconf/go-cty/cty/json"

	"hx/lib"
)

var typeAttrNames = []string{"a", "b", "c", "name", "id", "x-y", "_u", "k1", "for", "if", "in", "null", "true", "false", "else", "endif", "string", "number", "bool", "any", "list", "map", "set", "object", "tuple", "optional", "é", "e\u0301", "日本", "a-", "A", "z9"}

func genIdentName(r *lib.Rand) string {
	for {
		var s string
		if r.Chance(5, 6) {
			s = pick(r, typeAttrNames)
		} else {
			starts := []rune{'a', 'z', 'A', '_', 0xe9, 0x65e5, 0x3a9}
			conts := []rune{'a', '0', '9', '_', '-', 0x301, 0xe9, 0x65e5, 'Z'}
			s = string(starts[r.Intn(len(starts))])
			for k := r.Intn(6); k > 0; k-- {
				s += string(conts[r.Intn(len(conts))])
			}
		}
		if hclsyntax.ValidIdentifier(s) {
			return s
		}
	}
}

func genConstraintType(r *lib.Rand, depth int) cty.Type {
	ws := []int{2, 2, 1, 1, 3, 3, 3, 4, 6}
	if depth <= 0 {
		ws = []int{4, 3, 2, 2}
	}
	switch r.Weighted(ws) {
	case 0:
		return cty.String
	case 1:
		return cty.Number
	case 2:
		return cty.Bool
	case 3:
		return cty.DynamicPseudoType
	case 4:
		return cty.List(genConstraintType(r, depth-1))
	case 5:
		return cty.Set(genConstraintType(r, depth-1))
	case 6:
		return cty.Map(genConstraintType(r, depth-1))
	case 7:
		n := r.Weighted([]int{2, 3, 3, 2, 1})
		ts := make([]cty.Type, n)
		for i := range ts {
			ts[i] = genConstraintType(r, depth-1)
		}
		return cty.Tuple(ts)
	default:
		n := r.Weighted([]int{2, 3, 3, 3, 2, 1})
		m := map[string]cty.Type{}
		for i := 0; i < n; i++ {
			m[genIdentName(r)] = genConstraintType(r, depth-1)
		}
		return cty.Object(m)
	}
}

// firstAttrIs reports whether ty contains an object type whose first attribute in TypeString's (sorted) order is name.
func firstAttrIs(ty cty.Type, name string) bool {
	switch {
	case ty.IsCollectionType():
		return firstAttrIs(ty.ElementType(), name)
	case ty.IsTupleType():
		for _, et := range ty.TupleElementTypes() {
			if firstAttrIs(et, name) {
				return true
			}
		}
	case ty.IsObjectType():
		names := make([]string, 0)
		for k := range ty.AttributeTypes() {
			names = append(names, k)
		}
		sort.Strings(names)
		if len(names) > 0 && names[0] == name {
			return true
		}
		for _, k := range names {
			if firstAttrIs(ty.AttributeType(k), name) {
				return true
			}
		}
	}
	return false
}

func typeDepth(ty cty.Type) int {
	d := 0
	switch {
	case ty.IsCollectionType():
		d = typeDepth(ty.ElementType())
	case ty.IsTupleType():
		for _, et := range ty.TupleElementTypes() {
			if x := typeDepth(et); x > d {
				d = x
			}
		}
	case ty.IsObjectType():
		for _, at := range ty.AttributeTypes() {
			if x := typeDepth(at); x > d {
				d = x
			}
		}
	default:
		return 0
	}
	return d + 1
}

type typeCase struct {
	Kind string          `json:"kind"` // "type"
	Type json.RawMessage `json:"type"`
}

func (k *checker) checkType(ty cty.Type) {
	tj, err := ctyjson.MarshalType(ty)
	if err != nil {
		panic(err)
	}
	b, _ := json.Marshal(typeCase{Kind: "type", Type: tj})
	in := string(b)
	cx := k.cx
	cx.Guard("typestring", in, func() {
		s := typeexpr.TypeString(ty)
		classify := func(diags hcl.Diagnostics) string {
			sum := ""
			for _, d := range diags {
				if d.Severity == hcl.DiagError {
					sum = d.Summary + " " + d.Detail
					break
				}
			}
			if firstAttrIs(ty, "for") && strings.Contains(strings.ToLower(sum), "for") {
				return "object-first-attr-for"
			}
			return "other"
		}
		// native
		e, diags := hclsyntax.ParseExpression([]byte(s), "", hcl.InitialPos)
		if diags.HasErrors() {
			k.fail("typestring-unparseable:"+classify(diags), "TypeString output does not parse as an expression: "+diags.Error(), in, s)
			return
		}
		got, diags := typeexpr.TypeConstraint(e)
		if diags.HasErrors() {
			k.fail("typestring-rejected:native", "TypeConstraint rejects TypeString output: "+diags.Error(), in, s)
			return
		}
		if !got.Equals(ty) || lib.DumpType(got) != lib.DumpType(ty) {
			k.fail("type-changed:native", "TypeConstraint(parse(TypeString(ty))) is a different type", in, s+"\ngot  "+lib.DumpType(got)+"\nwant "+lib.DumpType(ty))
			return
		}
		// as an attribute value in a configuration file
		f, diags := hclsyntax.ParseConfig([]byte("type = "+s+"\n"), "", hcl.InitialPos)
		if diags.HasErrors() {
			k.fail("typestring-unparseable:"+classify(diags), "TypeString output does not parse as an attribute value: "+diags.Error(), in, s)
			return
		}
		got, diags = typeexpr.TypeConstraint(f.Body.(*hclsyntax.Body).Attributes["type"].Expr)
		if diags.HasErrors() || !got.Equals(ty) {
			k.fail("type-changed:native-attribute", "type read back from an attribute differs", in, s+"\ngot  "+lib.DumpType(got)+"\nwant "+lib.DumpType(ty))
			return
		}
		// exact types (Type) accept the same text when no "any" is involved
		if !ty.HasDynamicTypes() {
			got, diags = typeexpr.Type(e)
			if diags.HasErrors() || !got.Equals(ty) {
				k.fail("type-changed:native-exact", "typeexpr.Type of TypeString output differs", in, s+"\ngot  "+lib.DumpType(got)+"\nwant "+lib.DumpType(ty))
				return
			}
		}
		// JSON: the same text inside a JSON string
		je, diags := hcljson.ParseExpression(jsonQuote(s), "")
		if diags.HasErrors() {
			k.fail("json-parse", "JSON string rejected: "+diags.Error(), in, s)
			return
		}
		got, diags = typeexpr.TypeConstraint(je)
		if diags.HasErrors() {
			k.fail("typestring-rejected:json", "TypeConstraint rejects TypeString output inside a JSON string: "+diags.Error(), in, s)
			return
		}
		if !got.Equals(ty) || lib.DumpType(got) != lib.DumpType(ty) {
			k.fail("type-changed:json", "TypeConstraint of the JSON string is a different type", in, s+"\ngot  "+lib.DumpType(got)+"\nwant "+lib.DumpType(ty))
			return
		}
		// JSON file: {"type": "<text>"}
		jf, diags := hcljson.Parse([]byte(`{"type":`+string(jsonQuote(s))+`}`), "")
		if diags.HasErrors() {
			k.fail("json-parse", "JSON file rejected: "+diags.Error(), in, s)
			return
		}
		attrs, diags := jf.Body.JustAttributes()
		if diags.HasErrors() || attrs["type"] == nil {
			k.fail("json-parse", "JSON file attributes", in, s)
			return
		}
		got, diags = typeexpr.TypeConstraint(attrs["type"].Expr)
		if diags.HasErrors() || !got.Equals(ty) {
			k.fail("type-changed:json-attribute", "type read back from a JSON attribute differs", in, s+"\ngot  "+lib.DumpType(got)+"\nwant "+lib.DumpType(ty))
			return
		}
	})
}
