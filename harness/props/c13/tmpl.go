package c13

import (
	"strings"

	"github.com/hashicorp/hcl/v2"
	"github.com/zclconf/go-cty/cty"
	"github.com/zclconf/go-cty/cty/function"
	"github.com/zclconf/go-cty/cty/function/stdlib"

	"hx/lib"
)

// evalCtx is the context of the full-expression mode checks. It defines every name the shared
// expression generator uses (lib.DefaultVars / lib.DefaultFuncs) plus a few of our own.
func evalCtx() *hcl.EvalContext {
	first := function.New(&function.Spec{
		VarParam: &function.Parameter{Name: "xs", Type: cty.DynamicPseudoType, AllowNull: true, AllowUnknown: true, AllowDynamicType: true, AllowMarked: true},
		Type: func(args []cty.Value) (cty.Type, error) {
			if len(args) == 0 {
				return cty.String, nil
			}
			return args[0].Type(), nil
		},
		Impl: func(args []cty.Value, retType cty.Type) (cty.Value, error) {
			if len(args) == 0 {
				return cty.StringVal("none"), nil
			}
			return args[0], nil
		},
	})
	return &hcl.EvalContext{
		Variables: map[string]cty.Value{
			"a":     cty.NumberIntVal(1),
			"b":     cty.StringVal("str"),
			"foo":   cty.ObjectVal(map[string]cty.Value{"a": cty.NumberIntVal(7), "b": cty.StringVal("fb"), "key": cty.TupleVal([]cty.Value{cty.NumberIntVal(1), cty.StringVal("two")}), "k1": cty.True}),
			"bar_1": cty.True,
			"x-y":   cty.MustParseNumberVal("2.5"),
			"v":     cty.TupleVal([]cty.Value{cty.NumberIntVal(1), cty.NumberIntVal(2), cty.NumberIntVal(3)}),
			"each":  cty.ObjectVal(map[string]cty.Value{"key": cty.StringVal("k"), "value": cty.StringVal("v")}),
			"in":    cty.ListVal([]cty.Value{cty.StringVal("x"), cty.StringVal("y")}),
			"if":    cty.False,
			"for":   cty.MapVal(map[string]cty.Value{"a": cty.StringVal("A"), "b": cty.StringVal("B")}),
			"true1": cty.UnknownVal(cty.Number),
			"null_": cty.NullVal(cty.DynamicPseudoType),
			"unk":   cty.UnknownVal(cty.String),
			"dyn":   cty.DynamicVal,
			"nul":   cty.NullVal(cty.String),
			"sec":   cty.StringVal("s3cret").Mark("sensitive"),
			"lst":   cty.ListVal([]cty.Value{cty.StringVal("p"), cty.StringVal("q")}),
			"n10":   cty.NumberIntVal(10),
		},
		Functions: map[string]function.Function{
			"f":       first,
			"upper":   stdlib.UpperFunc,
			"min":     stdlib.MinFunc,
			"ns::fn":  stdlib.LengthFunc,
			"a::b::c": stdlib.ConcatFunc,
			"join":    stdlib.JoinFunc,
		},
	}
}

// tmplGen writes template source text (the *content* of a JSON string in full-expression mode).
type tmplGen struct {
	r  *lib.Rand
	eg *lib.ExprGen
}

func newTmplGen(r *lib.Rand) *tmplGen {
	return &tmplGen{r: r, eg: &lib.ExprGen{R: r, Simple: false}}
}

var goodExprs = []string{
	"a", "b", "a + 1", "a * n10 - 3", "upper(b)", "foo.a", "foo.key[1]", "v[0]", "v[2] % 2", "lst[1]", "each.value",
	"bar_1", "!bar_1", "a > 0 ? \"y\" : \"n\"", "[for x in v : x * 2]", "{for k, x in for : k => upper(x)}", "{ k = a, \"q\" = b }",
	"[a, b, null]", "join(\"-\", lst)", "min(a, n10, 5)", "\"in ${b} er\"", "\"x\\\"y\"", "\"tab\\there\"", "null", "true", "1.5e3", "12345678901234567890123",
	"unk", "dyn", "nul", "true1 + 1", "lst[*]", "foo.key.*", "v...", "f(v...)", "f()", "ns::fn(v)", "a::b::c(v, [4])", "\"${a}${b}\"", "\"%{ if bar_1 }T%{ endif }\"",
	"sec", "upper(sec)", "\"p-${sec}\"",
}

var badExprs = []string{"missing", "a +", "foo.nope", "v[9]", "upper(a, b)", "nofunc(a)", "a ? 1 : 2", "1 / 0", "b + 1", "[", "}", "a b", "nul.x", "upper(nul)", "\"unterminated", "for", "a.", "${a}", "'q'", "a == ", "lst[\"x\"]"}

func (t *tmplGen) expr() string {
	r := t.r
	switch r.Weighted([]int{10, 2, 5}) {
	case 0:
		return goodExprs[r.Intn(len(goodExprs))]
	case 1:
		return badExprs[r.Intn(len(badExprs))]
	}
	n := t.eg.Expr(1 + r.Intn(3))
	rd := &lib.Renderer{R: r, ExtraParen: 8}
	var toks []lib.Tk
	rd.Expr(&toks, n)
	parts := make([]string, len(toks))
	for i, tk := range toks {
		parts[i] = tk.Text
	}
	sep := " "
	if r.Chance(1, 6) {
		sep = "\n"
	}
	return strings.Join(parts, sep)
}

var tmplLits = []string{
	"", "hello", " ", "Hello, ", "!", "x\"y", "back\\slash", "\\n", "\\\"", "\\u0041", "new\nline", "tab\t", "cr\r\n", "$", "%", "$$", "%%", "$${a}", "%%{if}", "$${", "%%{",
	"$$${a}", "{", "}", "~", "\u00e9", "e\u0301", "\u65e5\u672c", "\U0001D11E", "\u0000", "\u001f", "\u007f", "\ufffd", "\u2028", "/", "//", "#", "<<EOT", "a.b", "$ {a}", "%\n{",
}

// template returns template text with up to n parts.
func (t *tmplGen) template(n int) string {
	r := t.r
	var sb strings.Builder
	strip := func() string {
		if r.Chance(1, 8) {
			return "~"
		}
		return ""
	}
	sp := func() string {
		if r.Chance(1, 3) {
			return " "
		}
		return ""
	}
	parts := 1 + r.Intn(n+1)
	if r.Chance(1, 4) {
		// a lone interpolation: must be unwrapped (keeps the type of the expression)
		return "${" + strip() + sp() + t.expr() + sp() + strip() + "}"
	}
	for i := 0; i < parts; i++ {
		switch r.Weighted([]int{8, 8, 2, 2, 1}) {
		case 0:
			sb.WriteString(tmplLits[r.Intn(len(tmplLits))])
		case 1:
			sb.WriteString("${" + strip() + sp() + t.expr() + sp() + strip() + "}")
		case 2:
			sb.WriteString("%{" + strip() + sp() + "if " + t.expr() + sp() + strip() + "}")
			sb.WriteString(t.template(1))
			if r.Chance(1, 2) {
				sb.WriteString("%{" + sp() + "else" + sp() + "}" + t.template(1))
			}
			if !r.Chance(1, 12) {
				sb.WriteString("%{" + strip() + sp() + "endif" + sp() + strip() + "}")
			}
		case 3:
			vars := "tv"
			if r.Chance(1, 3) {
				vars = "tk, tv"
			}
			sb.WriteString("%{" + sp() + "for " + vars + " in " + []string{"v", "lst", "foo", "for", "in", "unk", "nul", "a"}[r.Intn(8)] + sp() + strip() + "}")
			sb.WriteString([]string{"${tv}", "<${tv}>", "x", "${tv}${a}", "${upper(\"q\")}"}[r.Intn(5)])
			sb.WriteString("%{" + strip() + "endfor}")
		default:
			// broken introducers
			sb.WriteString([]string{"${", "%{", "${a", "%{if a}", "%{endif}", "${}", "%{ }", "%{else}", "${a}}", "${\"}"}[r.Intn(10)])
		}
	}
	return sb.String()
}

// keyTemplate returns template text suitable as an object member name (mostly evaluating to
// something convertible to string; sometimes null, unknown, marked, a collection, or an error).
func (t *tmplGen) keyTemplate() string {
	r := t.r
	switch r.Weighted([]int{8, 6, 3, 1, 1, 1, 1, 2, 2}) {
	case 0:
		return []string{"k", "name", "a", "b", "1", "true", "str", "k-1"}[r.Intn(8)]
	case 1:
		return []string{"${b}", "${a}", "${bar_1}", "k-${a}", "${b}-${a}", "${upper(b)}", "${lst[0]}", "${foo.a}", "$${a}", "%{if bar_1}t%{else}f%{endif}", "${x-y}", "${a + 0}"}[r.Intn(12)]
	case 2:
		return []string{"${unk}", "${dyn}", "u-${unk}", "${true1}"}[r.Intn(4)]
	case 3:
		return []string{"${nul}", "${null}", "${null_}"}[r.Intn(3)]
	case 4:
		return []string{"${sec}", "m-${sec}", "${upper(sec)}"}[r.Intn(3)]
	case 5:
		return []string{"${v}", "${foo}", "${lst}", "${[]}", "${{}}"}[r.Intn(5)]
	case 6:
		return []string{"${missing}", "${", "${a", "%{if}", "${1/0}"}[r.Intn(5)]
	case 7:
		return t.template(1)
	}
	return "${" + t.expr() + "}"
}
