package c13

import (
	"fmt"
	"os"
	"sync"
	"time"

	"hx/lib"
)

// watchdog turns an implementation call that does not return (a parser loop that stops consuming
// tokens grows without bound) into a recorded failure "hang:<stage>" instead of a stuck, memory-eating
// harness process: it writes the result file and exits.
type watchdog struct {
	mu     sync.Mutex
	active bool
	start  time.Time
	stage  string
	in     string
}

const hangAfter = 6 * time.Second

func startWatchdog(cx *lib.Ctx) *watchdog {
	w := &watchdog{}
	out := ""
	for i, a := range os.Args {
		if (a == "-out" || a == "--out") && i+1 < len(os.Args) {
			out = os.Args[i+1]
		}
	}
	go func() {
		for {
			time.Sleep(250 * time.Millisecond)
			w.mu.Lock()
			hung := w.active && time.Since(w.start) > hangAfter
			stage, in := w.stage, w.in
			w.mu.Unlock()
			if !hung {
				continue
			}
			// the main goroutine is stuck inside the implementation and does not touch the result
			cx.Res.Fail(lib.Failure{Kind: "oracle", Key: "hang:" + stage, Desc: fmt.Sprintf("the call did not return within %v (the run was aborted here)", hangAfter), Input: in})
			if out != "" {
				_ = cx.Res.Write(out)
			}
			fmt.Printf("hx %s: evaluations=%d distinct=%d corr=%d failures=%d (aborted: hang)\n", cx.Prop, cx.Res.Evaluations, cx.Res.Distinct, cx.Res.CorrChecked, len(cx.Res.Failures))
			os.Exit(0)
		}
	}()
	return w
}

func (w *watchdog) begin(stage, in string) {
	w.mu.Lock()
	w.active, w.start, w.stage, w.in = true, time.Now(), stage, in
	w.mu.Unlock()
}

func (w *watchdog) end() {
	w.mu.Lock()
	w.active = false
	w.mu.Unlock()
}
