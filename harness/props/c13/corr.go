package c13

import (
	"fmt"
	"strconv"
	"strings"
	"unicode/utf8"

	"github.com/apparentlymart/go-textseg/v15/textseg"
	hcljson "github.com/hashicorp/hcl/v2/json"

	"hx/lib"
)

// corr compares the real scanner+parser with the Lean model (HclModel/Json) on one input: acceptance, and
// the syntax tree when both accept. The grapheme-cluster advance at every byte offset is computed with
// textseg here and handed to the model (parameter `adv` of the scanner model).
func (o *oracle) corr(src []byte, implAccepts bool) {
	cx := o.cx
	if !cx.HasModel() || len(src) > 1500 {
		return
	}
	advs := make([]string, len(src))
	for i := range src {
		a := 1
		if src[i] >= 0x80 {
			n, _, _ := textseg.ScanGraphemeClusters(src[i:], true)
			if n > 0 {
				a = n
			}
		} else if src[i] >= 0x20 {
			// an ASCII byte may still head a longer cluster (combining marks after it)
			n, _, _ := textseg.ScanGraphemeClusters(src[i:], true)
			if n > 0 {
				a = n
			}
		}
		advs[i] = strconv.Itoa(a)
	}
	advS := "-"
	if len(advs) > 0 {
		advS = strings.Join(advs, ",")
	}
	hex := "-"
	if len(src) > 0 {
		hex = fmt.Sprintf("%x", src)
	}
	op := "JSON "
	if longNumber(src) {
		op = "JSONACC "
	}
	ans := cx.Ask(op + hex + " " + advS)
	cx.Res.CorrChecked++
	modelAccepts := strings.HasPrefix(ans, "acc")
	if !modelAccepts && ans != "rej" {
		o.fail(lib.Failure{Kind: "corr", Key: "JSON:bad-answer", Desc: "model answered " + lib.Trunc(ans, 200), Input: o.curIn})
		return
	}
	if modelAccepts != implAccepts {
		if !implAccepts && hasHugeExponentAnywhere(src) {
			cx.Res.Count("corr-skip:exponent-out-of-range")
			return
		}
		o.fail(lib.Failure{Kind: "corr", Key: "JSON:acceptance", Desc: fmt.Sprintf("json.ParseExpression accepts=%v, model accepts=%v", implAccepts, modelAccepts), Input: o.curIn, Model: lib.Trunc(ans, 300)})
		return
	}
	if !implAccepts || longNumber(src) || !utf8.Valid(src) {
		// invalid UTF-8 inside strings is replaced by U+FFFD in Go; the model keeps raw bytes
		return
	}
	var dump string
	if !o.guard("verif-dump", func() { dump, _ = hcljson.VerifParseExpression(src) }) {
		return
	}
	dump = strings.ReplaceAll(dump, "(num -0)", "(num 0)")
	if got := strings.TrimPrefix(ans, "acc "); got != dump {
		o.fail(lib.Failure{Kind: "corr", Key: "JSON:tree", Desc: "syntax trees differ", Input: o.curIn, Model: lib.Trunc(got, 400), Impl: lib.Trunc(dump, 400)})
	}
}

// longNumber: a number with so many digits or such an exponent that 512-bit rounding or the size of the
// plain decimal expansion gets in the way of an exact textual comparison.
func longNumber(src []byte) bool {
	run, exp := 0, false
	expDigits := 0
	for _, b := range src {
		switch {
		case b >= '0' && b <= '9':
			run++
			if exp {
				expDigits++
			}
			if run > 60 || expDigits > 3 {
				return true
			}
		case b == 'e' || b == 'E':
			exp = true
			expDigits = 0
		case b == '.' || b == '-' || b == '+':
		default:
			run, exp, expDigits = 0, false, 0
		}
	}
	return false
}

func hasHugeExponentAnywhere(src []byte) bool {
	exp, n := false, 0
	for _, b := range src {
		switch {
		case b == 'e' || b == 'E':
			exp, n = true, 0
		case exp && b >= '0' && b <= '9':
			n++
			if n >= 9 {
				return true
			}
		case exp && (b == '+' || b == '-'):
		default:
			exp = false
		}
	}
	return false
}
