// Package c13 is the direct oracle for property C13: the JSON syntax accepts exactly JSON and maps
// literals faithfully.
package c13

import (
	"fmt"
	"os"
	"strings"

	"hx/lib"
)

func init() { lib.Register("C13", runC13) }

// handValid are valid JSON texts kept because they exercise a rule or once exposed a problem.
var handValid = []string{
	`null`, `true`, `false`, `0`, `-0`, `-0.0`, `0e0`, `0E+0`, `1`, `-1`, `1.5`, `1e5`, `1E5`, `1e+5`, `1e-5`, `1.25e+02`, `123456789012345678901234567890`,
	`""`, `"a"`, `"\""`, `"\\"`, `"\/"`, `"\b\f\n\r\t"`, `"\u0041"`, `"\u00e9"`, `"\u00E9"`, `"e\u0301"`, `"\ud834\udd1e"`, `"\uD834\uDD1E"`, `"\ud800"`, `"\udc00"`, `"\ud800\ud800\udc00"`, `"\udc00\ud800"`, `"\ud800x"`, `"\ud800\n"`, `"\ud800\u0041"`,
	`"\u0000"`, `"\u001f"`, "\"\x7f\"", "\"\u0080\"", "\"\u2028\u2029\"", "\"\ufeff\"", "\"\ufffd\"", "\"\uffff\"", "\"\U0010ffff\"",
	`"${"`, `"%{"`, `"${a}"`, `"$${a}"`, `"%{if true}x%{endif}"`, `"Hello world! Template sequences like ${ are not intepreted here."`,
	`[]`, `{}`, `[[]]`, `[{}]`, `{"a":[]}`, `[1,2,3]`, `[1, "a", null, true, false, {}, []]`, `{"a":1}`, `{"a":1,"b":2}`, `{"":0}`, `{"//":"comment","a":1}`,
	`{"a":1,"a":2}`, `{"a":{"b":1,"b":2}}`, `[{"x":1,"x":1}]`, `{"\u00e9":1,"e\u0301":2}`, `{"a":1,"\u0061":2}`,
	" \t\r\n1 \t\r\n", "[\n1\r,\t2 ]", "{ \"a\" :\r\n 1 }", "\n\n{}\n\n",
	`{"a":"\u0024{b}"}`, `"\u0025{"`, `1E400`, `1e-400`, `0.1`, `0.5`, `0.1e1`, `100e-2`, `1.0`, `1.10`, `10e220`, `1e221`,
	`13407807929942597099574024998205846127479365820592393377723561443721764030073546976801874298166903427690031858186486050853753882811946569946433649006084095`,
	`13407807929942597099574024998205846127479365820592393377723561443721764030073546976801874298166903427690031858186486050853753882811946569946433649006084096`,
	`13407807929942597099574024998205846127479365820592393377723561443721764030073546976801874298166903427690031858186486050853753882811946569946433649006084097`,
	`[1e646456992, 1e646456993, 1e-646456993, 1e-700000000, 1e2147483646, 1e-2147483647]`, `1e2147483647`, `1e2147483648`, `1e-2147483649`, `1e99999999999999999999`, `1e-99999999999999999999`, `0e99999999999999999999`, `0.0e-99999999999999999999`,
	"[\"\u0600\", 1]", "{\"\u0600\": 1}", "[\"a\u0600\\\"\", 1]", "[\"\u0600\\\\\", 1]", "\"\u0600\"", "[\"\U000110bd\"]",
	"\"\U0001F468\u200d\U0001F469\"", "\"\u1100\u1161\"", "\"\U0001F1E9\U0001F1EA\"",
}

// handInvalid are byte strings that are not JSON texts.
var handInvalid = []string{
	"\ufeff{}", "\ufeff[]", "\ufeff{\"a\":1}", "\ufeff[1,2]", " \ufeff{}", "\ufeff\ufeff{}", "\ufeff", "\ufeff \n{}", "{}\ufeff", "\ufeff1", "\ufeff\"s\"", "\ufefftrue",
	``, ` `, "\n", `,`, `:`, `]`, `}`, `[`, `{`, `[[`, `{"a"`, `{"a":`, `{"a":1`, `{"a":1,`, `[1`, `[1,`, `"`, `"a`, `"a\`, `"a\"`, `"\`,
	`[1,]`, `[,1]`, `[,]`, `[1,,2]`, `{"a":1,}`, `{,}`, `{,"a":1}`, `{"a":1,,"b":2}`, `[1 2]`, `{"a":1 "b":2}`, `{"a" 1}`, `{"a"}`, `{"a":}`, `{1:2}`, `{a:1}`, `{null:1}`, `{[]:1}`, `{"a":1]`, `[1}`, `[1:2]`, `{"a"=1}`, `{"a":1;"b":2}`,
	`tru`, `nul`, `fals`, `True`, `TRUE`, `False`, `NULL`, `Null`, `nil`, `None`, `undefined`, `NaN`, `Infinity`, `-Infinity`, `-NaN`, `truee`, `true_`, `nulll`, `null0`, `true1`, `1true`, `truefalse`, `a`, `abc`, `_`, `$`,
	`+1`, `01`, `-01`, `00`, `1.`, `.5`, `-.5`, `1.e5`, `1e`, `1e+`, `1e-`, `1E`, `-`, `--1`, `+`, `1.2.3`, `1e5e5`, `1e5.5`, `0x10`, `0X1F`, `1_000`, `1,000`, `1 000`, `0.`, `0.e1`, `e5`, `E5`, `1-2`, `1+2`, `- 1`, `1e 5`, `1 e5`, `Inf`, `-Inf`, `1f`, `1d`, `0b1`, `0o7`, "\u0663",
	`'a'`, `{'a':1}`, `"a" "b"`, `1 2`, `{} {}`, `[] []`, `{}}`, `[]]`, `{}]`, `[],`, `{},`, `1,`, `null null`, `"a":1`, `"a",`,
	"//c\n1", "/*c*/1", "1//c", "1/*c*/", "#c\n1", "[1,//c\n2]", "{\"a\":1/*c*/}",
	"\"\n\"", "\"\r\"", "\"\t\"", "\"\x00\"", "\"\x01\"", "\"\x1f\"", "\"a\x0bb\"", "{\"a\nb\":1}", "[\"\x08\"]",
	`"\x41"`, `"\a"`, `"\'"`, `"\0"`, `"\v"`, `"\e"`, `"\U00000041"`, `"\u"`, `"\u1"`, `"\u12"`, `"\u123"`, `"\u12G4"`, `"\u 123"`, `"\u+123"`, `"\u-123"`, `"\uD8"`, `"\N"`, `"\ "`, "\"\\\n\"",
	"\xef\xbb\xbf{}", "\xef\xbb\xbf1", "{}\xef\xbb\xbf", "\xff", "\xfe\xff", "1\xff", "[1,\xff2]", "[\xc3\xa9]", "\xc2\xa01", "1\xc2\xa0", "[1\xe2\x80\xa8]", "\x0c1", "1\x0c", "[1\x0b]", "\x001", "1\x00", "[\x00]", "\x7f", "[1\x7f]", "\x85",
	"\"\xff\"", "{\"a\":\"\xff\"}", "{\"\xff\":1}", "[\"\xc3\"]", "\"\xc3(\"", "\"\xe2\x82\"", "\"\xed\xa0\x80\"", "\"\xed\xbf\xbf\"", "\"\xc0\x80\"", "\"\xc1\xbf\"", "\"\xe0\x80\x80\"", "\"\xf0\x80\x80\x80\"", "\"\xf4\x90\x80\x80\"", "\"\xf5\x80\x80\x80\"", "\"\xf8\x88\x80\x80\x80\"", "\"a\x80b\"", "\"\xbf\"", "\"\xfe\"", "[\"ok\", \"\xff\xfe\"]", "{\"k\xc3\":{\"a\":1}}",
	"\"\xff", "\"\\\xff\"", "\"\\u00\xff0\"",
}

func runC13(cx *lib.Ctx) {
	res := cx.Res
	o := &oracle{cx: cx, ctx: evalCtx(), wd: startWatchdog(cx)}
	if cx.Replay != "" {
		src := decodeReplay(lib.ReplayInput(cx.Replay))
		nt := o.check(src, docOpts{origin: "replay", full: !hasBigExponentBytes(src)})
		res.Case(string(src), nt)
		res.Sample(replayInput(src))
		return
	}
	res.Rule = "byte strings from: random JSON trees (all value kinds, every escape form incl. \\uXXXX for any character, surrogate pairs and lone surrogates, Prepend-class and other awkward code points, numbers with long mantissas / fractions / exponents around the 512-bit and exponent-range limits, duplicate and NFC-equivalent member names, every whitespace form) rendered under random layouts and checked against an independent RFC 8259 recogniser/decoder (cross-checked with encoding/json.Valid && utf8.Valid on every input); near-miss mutations of those; documents whose strings and member names are native templates (full-expression mode against hclsyntax.ParseTemplate in a context with unknown/null/marked values and functions); deep nestings; an exhaustive enumeration of short concatenations of JSON lexical fragments; a hand corpus. Non-trivial = valid text with a container, a string needing unescaping/non-ASCII/template sequence or a multi-character number, or an invalid text longer than one byte; distinct by byte string"

	// lib.Rand is a splitmix64 whose state for seed n+1 is the state for seed n advanced by one step,
	// so forking cx.R directly per case would make consecutive seeds replay each other's cases
	// shifted by one. One extra fork decorrelates the seeds (the root state becomes a mixed value).
	root := cx.R.Fork()

	for _, s := range handValid {
		nt := o.check([]byte(s), docOpts{origin: "corpus-valid", full: !hasBigExponentBytes([]byte(s))})
		res.Case(s, nt)
		res.Count("stream:corpus")
	}
	for _, s := range handInvalid {
		nt := o.check([]byte(s), docOpts{origin: "corpus-invalid"})
		res.Case(s, nt)
		res.Count("stream:corpus")
	}

	// generated documents and their mutations
	n := cx.Scale(60000, 1000000)
	for i := 0; i < n; i++ {
		r := root.Fork()
		g := &docGen{r: r, prepend: r.Chance(1, 6), dupKeys: r.Chance(1, 4)}
		budget := 1 + r.Intn(25)
		tree := g.value(1+r.Intn(5), &budget)
		src := renderDoc(r, tree)
		nt := o.check([]byte(src), docOpts{origin: "generated", gen: tree, full: r.Chance(1, 3)})
		res.Case(src, nt)
		res.Count("stream:generated")
		if i < 2 {
			res.Sample(src)
		}
		for k := r.Intn(3); k > 0; k-- {
			m, opName := mutate(r, []byte(src))
			nt := o.check(m, docOpts{origin: "mutation:" + opName})
			res.Case(string(m), nt)
			res.Count("stream:mutation")
			res.Count("mutation:" + opName)
			if i < 2 {
				res.Sample(replayInput(m))
			}
		}
	}

	// full-expression documents
	n = cx.Scale(25000, 400000)
	for i := 0; i < n; i++ {
		r := root.Fork()
		g := &docGen{r: r, templates: true, maxExp: 300, dupKeys: r.Chance(1, 5), tg: newTmplGen(r)}
		budget := 1 + r.Intn(10)
		var tree *jv
		if r.Chance(1, 3) {
			tree = &jv{K: jStr, S: g.tg.template(3)}
		} else {
			tree = g.value(1+r.Intn(3), &budget)
		}
		src := renderDoc(r, tree)
		nt := o.check([]byte(src), docOpts{origin: "template-document", gen: tree, full: true})
		res.Case(src, nt)
		res.Count("stream:template-document")
		if i < 2 {
			res.Sample(src)
		}
	}

	// numbers
	n = cx.Scale(25000, 400000)
	for i := 0; i < n; i++ {
		r := root.Fork()
		g := &docGen{r: r}
		var src string
		switch r.Intn(12) {
		case 0:
			src = extremeNumber(r)
		case 1:
			src = "[" + g.number() + "," + extremeNumber(r) + "]"
		case 2:
			src = `{"n":` + g.number() + `}`
		default:
			src = g.number()
		}
		nt := o.check([]byte(src), docOpts{origin: "number"})
		res.Case(src, nt)
		res.Count("stream:number")
		if r.Chance(1, 3) {
			m, opName := mutate(r, []byte(src))
			res.Case(string(m), o.check(m, docOpts{origin: "number-mutation:" + opName}))
			res.Count("stream:number-mutation")
		}
	}

	// deep nesting
	maxDepth := cx.Scale(1500, 5000)
	n = cx.Scale(30, 300)
	for i := 0; i < n; i++ {
		r := root.Fork()
		d := 50 + r.Intn(maxDepth-50)
		if i == 0 {
			d = maxDepth
		}
		src := deepDoc(r, d)
		res.Case(src, o.check([]byte(src), docOpts{origin: fmt.Sprintf("deep-%d", d), full: r.Chance(1, 4)}))
		res.Count("stream:deep")
		m, opName := mutate(r, []byte(src))
		res.Case(string(m), o.check(m, docOpts{origin: "deep-mutation:" + opName}))
		res.Count("stream:deep-mutation")
		if r.Chance(1, 3) {
			// unclosed: only openers
			k := strings.LastIndexAny(src, "[{") + 1
			res.Case(src[:k], o.check([]byte(src[:k]), docOpts{origin: "deep-unclosed"}))
			res.Count("stream:deep-unclosed")
		}
	}

	// wide documents: thousands of sibling containers / members at one level (no deep nesting)
	n = cx.Scale(8, 60)
	for i := 0; i < n; i++ {
		r := root.Fork()
		k := 10001 + r.Intn(9000)
		if i%4 == 3 {
			k = 4000 + r.Intn(3000)
		}
		var sb strings.Builder
		elem := []string{"[]", "{}", "[1,[true]]", "[[]]", "{\"a\":[]}", "1", "\"s\"", "[null]"}
		switch i % 4 {
		case 0:
			e := r.Pick(elem[:5])
			sb.WriteString("[")
			for j := 0; j < k; j++ {
				if j > 0 {
					sb.WriteString(",")
				}
				sb.WriteString(e)
			}
			sb.WriteString("]")
		case 1:
			sb.WriteString("{")
			for j := 0; j < k; j++ {
				if j > 0 {
					sb.WriteString(",")
				}
				fmt.Fprintf(&sb, "\"k%d\":%s", j, r.Pick(elem))
			}
			sb.WriteString("}")
		case 2:
			sb.WriteString("[")
			for j := 0; j < k; j++ {
				if j > 0 {
					sb.WriteString(", ")
				}
				sb.WriteString(r.Pick(elem))
			}
			sb.WriteString("]")
		default:
			sb.WriteString("{\"outer\":[")
			for j := 0; j < k; j++ {
				if j > 0 {
					sb.WriteString(",")
				}
				sb.WriteString("{\"a\":[[],[]],\"b\":{}}")
			}
			sb.WriteString("]}")
		}
		src := sb.String()
		res.Case(src, o.check([]byte(src), docOpts{origin: fmt.Sprintf("wide-%d", k)}))
		res.Count("stream:wide")
	}
	if o.tmpDir != "" {
		os.RemoveAll(o.tmpDir)
	}

	c13Windows(cx, o)
}

func hasBigExponentBytes(src []byte) bool {
	// a run of 6 or more digits after e/E: keep such documents away from exact dumps
	for i := 0; i+1 < len(src); i++ {
		if src[i] == 'e' || src[i] == 'E' {
			j := i + 1
			if j < len(src) && (src[j] == '+' || src[j] == '-') {
				j++
			}
			k := j
			for k < len(src) && src[k] >= '0' && src[k] <= '9' {
				k++
			}
			if k-j >= 6 {
				return true
			}
		}
	}
	return false
}

// extremeNumber returns valid literals around the limits of the number representation.
func extremeNumber(r *lib.Rand) string {
	mant := []string{"1", "9", "-1", "1.5", "123", "0.001", "9.999999", "-2.5", "12345678901234567890"}[r.Intn(9)]
	var e string
	switch r.Intn(10) {
	case 0:
		e = fmt.Sprintf("%d", 646456900+r.Intn(200)) // 2^31 / log2(10) = 646456993.1
	case 1:
		e = fmt.Sprintf("-%d", 646456900+r.Intn(200))
	case 2:
		e = fmt.Sprintf("%d", 2147483600+r.Intn(100)) // around MaxInt32
	case 3:
		e = fmt.Sprintf("-%d", 2147483600+r.Intn(100))
	case 4:
		e = fmt.Sprintf("%d", 100000+r.Intn(1000000000))
	case 5:
		e = fmt.Sprintf("-%d", 100000+r.Intn(1000000000))
	case 6:
		e = fmt.Sprintf("%s%d%s", []string{"", "+", "-"}[r.Intn(3)], 1+r.Intn(9), digits(r, 10+r.Intn(20)))
	case 7:
		e = fmt.Sprintf("%d", 9223372036854775800+uint64(r.Intn(16))) // around MaxInt64
	case 8:
		e = fmt.Sprintf("-%d", 9223372036854775800+uint64(r.Intn(16)))
	default:
		e = fmt.Sprintf("%s%d", []string{"", "+", "-"}[r.Intn(3)], 30000+r.Intn(70000))
	}
	return mant + "eE"[r.Intn(2):][:1] + e
}

// c13Windows enumerates every concatenation of up to k lexical fragments (no separators, so that
// fragments fuse: 0+1 = 01, 1+.5 = 1.5, -+1 = -1, tru+e ...), and runs the acceptance oracle.
func c13Windows(cx *lib.Ctx, o *oracle) {
	frags := []string{"{", "}", "[", "]", ",", ":", `"a"`, `"`, "1", "0", "-", ".5", "e1", "true", "null", " ", "=", "\\"}
	k := cx.Scale(4, 5)
	count, valid := 0, 0
	idx := make([]int, 0, k)
	var rec func()
	var sb []byte
	rec = func() {
		if len(idx) > 0 {
			count++
			before := cx.Res.Distribution["valid"]
			nt := o.check(sb, docOpts{origin: "window"})
			if cx.Res.Distribution["valid"] > before {
				valid++
			}
			cx.Res.Case(string(sb), nt)
		}
		if len(idx) == k {
			return
		}
		for i, f := range frags {
			idx = append(idx, i)
			l := len(sb)
			sb = append(sb, f...)
			rec()
			sb = sb[:l]
			idx = idx[:len(idx)-1]
		}
	}
	rec()
	cx.Res.Distribution["stream:window"] += count
	cx.Res.Exhaustive = map[string]int{"windows_tried": count, "windows_valid": valid, "window_len": k, "fragments": len(frags)}
}
