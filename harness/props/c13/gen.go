package c13

import (
	"fmt"
	"strconv"
	"strings"
	"unicode/utf8"

	"github.com/apparentlymart/go-textseg/v15/textseg"

	"hx/lib"
)

// ---------------------------------------------------------------------------
// Random JSON values (as jv trees) and their rendering under random escape forms and whitespace.

// loneSurr marks, inside the generator's string values only, a lone surrogate escape to be written
// (the decoded value has U+FFFD there). It is a private-use code point never used otherwise.
const loneSurr = '\U0010FFFD'

var strAtoms = []string{
	"", "a", "b", "key", "hello world", "A", "0", " ", "  ",
	"\"", "\\", "/", "\b", "\f", "\n", "\r", "\t", "\x00", "\x01", "\x1f", "\x7f",
	"${", "%{", "${a}", "%{if true}x%{endif}", "$${", "%%{", "$", "%", "}", "{", "~}", "${\"q\"}",
	"\u00e9", "e\u0301", "\u00df", "\u65e5\u672c\u8a9e", "\u0080", "\u009f", "\u00a0", "\u2028", "\u2029", "\ufeff", "\ufffd", "\uffff", "\ud7ff", "\ue000",
	"\U0001D11E", "\U0001F600", "\U0010FFFF", "\U00010000", "\U0001F468\u200d\U0001F469\u200d\U0001F467", "\U0001F1E9\U0001F1EA", "\u1100\u1161\u11a8", "a\u0300\u0301", "\u200d", "\u0e01\u0e33",
	"\\u0041", "\\n", "u", "\\\\", "//", "/*", "#", "'", "=", ":", ",", "[", "]", "true", "null", "1e5",
}

// prependAtoms are characters of the grapheme-break class Prepend (they join the following
// character, whatever it is, into one grapheme cluster).
var prependAtoms = []string{"\u0600", "\u0605", "\u06dd", "\u070f", "\u08e2", "\U000110bd", "\U000110cd", "\u0d4e", "\U00011a3a"}

type docGen struct {
	r *lib.Rand
	// knobs
	prepend   bool // allow Prepend-class characters in strings
	templates bool // strings are mostly meaningful templates (full-expression documents)
	maxExp    int  // bound on number exponents (0 = default mix)
	dupKeys   bool
	tg        *tmplGen
}

func (g *docGen) strValue() string {
	r := g.r
	if g.templates && r.Chance(3, 4) {
		return g.tg.template(2)
	}
	n := r.Weighted([]int{2, 6, 4, 2, 1})
	if n == 4 {
		n = 4 + r.Intn(12)
	}
	var sb strings.Builder
	for i := 0; i < n; i++ {
		switch {
		case r.Chance(1, 14):
			sb.WriteRune(loneSurr)
		case g.prepend && r.Chance(1, 25):
			sb.WriteString(prependAtoms[r.Intn(len(prependAtoms))])
		case r.Chance(1, 10):
			// a random scalar value
			for {
				c := rune(r.Intn(0x110000))
				if r.Chance(1, 2) {
					c = rune(r.Intn(0x3000))
				}
				if (c >= 0xD800 && c < 0xE000) || c == loneSurr || isPrepend(c) {
					continue
				}
				sb.WriteRune(c)
				break
			}
		default:
			sb.WriteString(strAtoms[r.Intn(len(strAtoms))])
		}
	}
	return sb.String()
}

// isPrepend reports (behaviourally, with the segmenter the scanner uses) whether c joins a following
// quote into one grapheme cluster, i.e. is of grapheme-break class Prepend.
func isPrepend(c rune) bool {
	b := utf8.AppendRune(nil, c)
	n := len(b)
	b = append(b, '"')
	adv, _, _ := textseg.ScanGraphemeClusters(b, true)
	return adv > n
}

func digits(r *lib.Rand, n int) string {
	b := make([]byte, n)
	for i := range b {
		b[i] = byte('0' + r.Intn(10))
	}
	return string(b)
}

// number returns a valid JSON number literal.
func (g *docGen) number() string {
	r := g.r
	var sb strings.Builder
	if r.Chance(1, 3) {
		sb.WriteByte('-')
	}
	intLen := 1
	switch r.Weighted([]int{3, 8, 4, 2, 2, 1}) {
	case 0:
		intLen = 0 // "0"
	case 1:
		intLen = 1 + r.Intn(4)
	case 2:
		intLen = 5 + r.Intn(30)
	case 3:
		intLen = 150 + r.Intn(10) // around the 512-bit boundary (2^512 has 155 digits)
	case 4:
		intLen = 40 + r.Intn(120)
	default:
		intLen = 160 + r.Intn(400)
	}
	if g.maxExp > 0 && intLen > 30 {
		intLen = 1 + r.Intn(30)
	}
	if intLen == 0 {
		sb.WriteByte('0')
	} else {
		sb.WriteByte(byte('1' + r.Intn(9)))
		if r.Chance(1, 6) {
			// trailing zeros: a short mantissa in binary terms
			k := r.Intn(intLen)
			sb.WriteString(digits(r, intLen-1-k))
			sb.WriteString(strings.Repeat("0", k))
		} else {
			sb.WriteString(digits(r, intLen-1))
		}
	}
	if r.Chance(2, 5) {
		sb.WriteByte('.')
		switch r.Weighted([]int{6, 3, 1, 1}) {
		case 0:
			sb.WriteString(digits(r, 1+r.Intn(4)))
		case 1:
			sb.WriteString(digits(r, 5+r.Intn(40)))
		case 2:
			if g.maxExp > 0 {
				sb.WriteString(digits(r, 1+r.Intn(20)))
			} else {
				sb.WriteString(digits(r, 100+r.Intn(400)))
			}
		default:
			// dyadic fractions are exactly representable
			sb.WriteString([]string{"5", "25", "125", "0625", "75", "0", "000", "50", "001953125"}[r.Intn(9)])
		}
	}
	if r.Chance(2, 5) {
		sb.WriteByte("eE"[r.Intn(2)])
		switch r.Intn(3) {
		case 0:
			sb.WriteByte('+')
		case 1:
			sb.WriteByte('-')
		}
		if r.Chance(1, 8) {
			sb.WriteString(strings.Repeat("0", 1+r.Intn(3)))
		}
		var e int
		switch r.Weighted([]int{8, 5, 3, 2}) {
		case 0:
			e = r.Intn(20)
		case 1:
			e = r.Intn(400)
		case 2:
			e = 140 + r.Intn(100) // 10^221 is the first power of ten that needs more than 512 bits
		default:
			e = r.Intn(6000)
		}
		if g.maxExp > 0 && e > g.maxExp {
			e = r.Intn(g.maxExp + 1)
		}
		sb.WriteString(strconv.Itoa(e))
	}
	return sb.String()
}

var keyPool = []string{"a", "b", "c", "key", "", " ", "a b", "${a}", "\u00e9", "e\u0301", "//", "0", "1", "true", "null", "k\"q", "k\\", "\n", "\u65e5\u672c", "\U0001D11E", "%{", "x-y", "A", "a.b", "a[0]"}

func (g *docGen) key() string {
	r := g.r
	switch {
	case g.templates && r.Chance(1, 3):
		return g.tg.keyTemplate()
	case r.Chance(3, 4):
		return keyPool[r.Intn(len(keyPool))]
	}
	return g.strValue()
}

// value builds a random tree with at most about budget nodes.
func (g *docGen) value(depth int, budget *int) *jv {
	r := g.r
	*budget--
	ws := []int{6, 4, 4, 8, 10, 5, 5}
	if depth <= 0 || *budget <= 0 {
		ws[5], ws[6] = 0, 0
	}
	switch r.Weighted(ws) {
	case 0:
		return &jv{K: jNull}
	case 1:
		return &jv{K: jBool, B: true}
	case 2:
		return &jv{K: jBool}
	case 3:
		return &jv{K: jNum, S: g.number()}
	case 4:
		return &jv{K: jStr, S: g.strValue()}
	case 5:
		v := &jv{K: jArr}
		for n := r.Weighted([]int{2, 3, 3, 2, 1, 1}); n > 0; n-- {
			v.Kids = append(v.Kids, g.value(depth-1, budget))
		}
		return v
	default:
		v := &jv{K: jObj}
		for n := r.Weighted([]int{2, 3, 3, 2, 1, 1}); n > 0; n-- {
			k := g.key()
			if g.dupKeys && len(v.Keys) > 0 && r.Chance(1, 3) {
				k = v.Keys[r.Intn(len(v.Keys))]
				if r.Chance(1, 4) {
					switch k {
					case "\u00e9":
						k = "e\u0301"
					case "e\u0301":
						k = "\u00e9"
					}
				}
			} else if !g.dupKeys {
				for tries := 0; tries < 4 && containsNFC(v.Keys, k); tries++ {
					k = k + strconv.Itoa(len(v.Keys))
				}
			}
			v.Keys = append(v.Keys, k)
			v.Kids = append(v.Kids, g.value(depth-1, budget))
		}
		return v
	}
}

func containsNFC(ks []string, k string) bool {
	nk := nfc(k)
	for _, x := range ks {
		if nfc(x) == nk {
			return true
		}
	}
	return false
}

// decoded replaces the generator's lone-surrogate marker by what the string decodes to.
func decoded(s string) string { return strings.ReplaceAll(s, string(loneSurr), "\ufffd") }

// ---------------------------------------------------------------------------
// Rendering

type render struct {
	r       *lib.Rand
	sb      strings.Builder
	wsStyle int // 0 none, 1 light, 2 heavy, 3 pretty
	escBias int // 0 minimal escaping, 1 mixed, 2 escape everything possible
}

func (w *render) gap() {
	r := w.r
	switch w.wsStyle {
	case 0:
		return
	case 1:
		if r.Chance(1, 3) {
			w.sb.WriteByte(" \t\n\r"[r.Intn(4)])
		}
	case 2:
		for n := r.Intn(5); n > 0; n-- {
			w.sb.WriteString([]string{" ", "\t", "\n", "\r", "\r\n", "  ", "\n\n", " \t "}[r.Intn(8)])
		}
	default:
		if r.Chance(1, 2) {
			w.sb.WriteString(" ")
		}
	}
}

func u4(r *lib.Rand, c rune) string {
	if r.Chance(1, 2) {
		return fmt.Sprintf(`\u%04x`, c)
	}
	if r.Chance(1, 2) {
		return fmt.Sprintf(`\u%04X`, c)
	}
	s := fmt.Sprintf(`%04x`, c)
	b := []byte(s)
	for i := range b {
		if r.Chance(1, 2) && b[i] >= 'a' {
			b[i] -= 32
		}
	}
	return `\u` + string(b)
}

// str writes a JSON string literal denoting s (with loneSurr standing for a lone surrogate escape).
func (w *render) str(s string) {
	r := w.r
	w.sb.WriteByte('"')
	prevLoneHigh := false
	for _, c := range s {
		loneHigh := false
		escape := w.escBias == 2 || (w.escBias == 1 && r.Chance(1, 4))
		switch {
		case c == loneSurr:
			// a low surrogate never pairs with what follows; after a lone high one we must not write
			// a low one (that would be a valid pair), so write a high one again
			var u rune
			if prevLoneHigh || r.Chance(1, 2) {
				u = 0xD800 + rune(r.Intn(0x400))
				loneHigh = true
			} else {
				u = 0xDC00 + rune(r.Intn(0x400))
			}
			w.sb.WriteString(u4(r, u))
		case c == '"' || c == '\\':
			if r.Chance(1, 5) {
				w.sb.WriteString(u4(r, c))
			} else {
				w.sb.WriteByte('\\')
				w.sb.WriteRune(c)
			}
		case c < 0x20:
			short := map[rune]string{8: `\b`, 12: `\f`, 10: `\n`, 13: `\r`, 9: `\t`}[c]
			if short != "" && !r.Chance(1, 4) {
				w.sb.WriteString(short)
			} else {
				w.sb.WriteString(u4(r, c))
			}
		case c == '/':
			switch {
			case r.Chance(1, 3):
				w.sb.WriteString(`\/`)
			case escape:
				w.sb.WriteString(u4(r, c))
			default:
				w.sb.WriteByte('/')
			}
		case c >= 0x10000:
			if escape {
				c2 := c - 0x10000
				w.sb.WriteString(u4(r, 0xD800+(c2>>10)))
				w.sb.WriteString(u4(r, 0xDC00+(c2&0x3ff)))
			} else {
				w.sb.WriteRune(c)
			}
		default:
			if escape {
				w.sb.WriteString(u4(r, c))
			} else {
				w.sb.WriteRune(c)
			}
		}
		prevLoneHigh = loneHigh
	}
	w.sb.WriteByte('"')
}

func (w *render) value(v *jv, indent int) {
	switch v.K {
	case jNull:
		w.sb.WriteString("null")
	case jBool:
		if v.B {
			w.sb.WriteString("true")
		} else {
			w.sb.WriteString("false")
		}
	case jNum:
		w.sb.WriteString(v.S)
	case jStr:
		w.str(v.S)
	case jArr:
		w.sb.WriteByte('[')
		for i, k := range v.Kids {
			if i > 0 {
				w.gap()
				w.sb.WriteByte(',')
			}
			w.nl(indent + 1)
			w.gap()
			w.value(k, indent+1)
		}
		if len(v.Kids) > 0 {
			w.nl(indent)
		}
		w.gap()
		w.sb.WriteByte(']')
	case jObj:
		w.sb.WriteByte('{')
		for i, k := range v.Kids {
			if i > 0 {
				w.gap()
				w.sb.WriteByte(',')
			}
			w.nl(indent + 1)
			w.gap()
			w.str(v.Keys[i])
			w.gap()
			w.sb.WriteByte(':')
			w.gap()
			w.value(k, indent+1)
		}
		if len(v.Kids) > 0 {
			w.nl(indent)
		}
		w.gap()
		w.sb.WriteByte('}')
	}
}

func (w *render) nl(indent int) {
	if w.wsStyle == 3 {
		w.sb.WriteByte('\n')
		w.sb.WriteString(strings.Repeat("  ", indent))
	}
}

func renderDoc(r *lib.Rand, v *jv) string {
	w := &render{r: r, wsStyle: r.Weighted([]int{3, 3, 3, 2}), escBias: r.Weighted([]int{3, 5, 2})}
	w.gap()
	w.value(v, 0)
	w.gap()
	return w.sb.String()
}

// sameTree compares the generator's tree with the reference decoder's.
func sameTree(gen, dec *jv) bool {
	if gen.K != dec.K || len(gen.Kids) != len(dec.Kids) {
		return false
	}
	switch gen.K {
	case jBool:
		return gen.B == dec.B
	case jNum:
		return gen.S == dec.S
	case jStr:
		return decoded(gen.S) == dec.S
	case jObj:
		for i := range gen.Keys {
			if decoded(gen.Keys[i]) != dec.Keys[i] {
				return false
			}
		}
	}
	for i := range gen.Kids {
		if !sameTree(gen.Kids[i], dec.Kids[i]) {
			return false
		}
	}
	return true
}

// ---------------------------------------------------------------------------
// Deep nesting

func deepDoc(r *lib.Rand, depth int) string {
	var open, close []string
	for i := 0; i < depth; i++ {
		switch r.Intn(4) {
		case 0:
			open = append(open, `{"a":`)
			close = append(close, `}`)
		case 1:
			open = append(open, `[1,`)
			close = append(close, `]`)
		case 2:
			open = append(open, `{"k":0, "n" : `)
			close = append(close, ` ,"z":null}`)
		default:
			open = append(open, `[`)
			close = append(close, `]`)
		}
	}
	var sb strings.Builder
	for _, o := range open {
		sb.WriteString(o)
	}
	sb.WriteString([]string{`1`, `"x"`, `null`, `[]`, `{}`, `true`}[r.Intn(6)])
	for i := len(close) - 1; i >= 0; i-- {
		sb.WriteString(close[i])
	}
	return sb.String()
}

// ---------------------------------------------------------------------------
// Near-miss mutations of a valid document.

var nearMissInserts = []string{
	",", ",,", ":", "=", "}", "]", "{", "[", "\"", "'", "\\", "\\x", "\\u12", "\\uD8", "\\a", "\\'", "\\0",
	"true", "True", "TRUE", "NULL", "Null", "nil", "None", "undefined", "NaN", "Infinity", "-Infinity", "tru", "nul", "fals", "truee", "true_", "null0",
	"+1", "01", "1.", ".5", "1e", "1e+", "-", "--1", "1.e5", "0x1F", "1_000", "00", "-01", "1.2.3", "1e5e5", "0.e1", "+", "e5", "E", "1E", "-e1",
	"//c\n", "/*c*/", "#c\n", "\x00", "\x01", "\x0b", "\x0c", "\x1f", "\x7f", "\x85", "\xa0", "\u00a0", "\u2028", "\ufeff", "\u3000",
	"\xff", "\xc0\x80", "\xed\xa0\x80", "\xf4\x90\x80\x80", "\xc3", "\xe2\x82", "\x80", "\xfe", "\xf8\x88\x80\x80\x80",
	" ", "\t", "\n", "\r", "\"a\"", "\"a\":", "1", "null", "{}", "[]", "\"\n\"", "\"\t\"", "\"\x00\"", "\"\x1f\"", "\"\xff\"", "\"\xc3\"", "\"\xed\xa0\x80\"",
	"\u0600", "\"\u0600\"",
}

// mutate returns a near miss of src and the name of the mutation operator.
func mutate(r *lib.Rand, src []byte) ([]byte, string) {
	out := append([]byte{}, src...)
	pos := func() int { return r.Intn(len(out) + 1) }
	findAll := func(set string) []int {
		var ix []int
		for i, c := range out {
			if strings.IndexByte(set, c) >= 0 {
				ix = append(ix, i)
			}
		}
		return ix
	}
	ins := func(p int, s string) { out = append(out[:p], append([]byte(s), out[p:]...)...) }
	switch op := r.Intn(16); op {
	case 0:
		if ix := findAll("]}"); len(ix) > 0 {
			ins(ix[r.Intn(len(ix))], ",")
			return out, "trailing-or-extra-comma"
		}
	case 1:
		if len(out) > 0 {
			out = out[:r.Intn(len(out))]
			return out, "truncate"
		}
	case 2:
		ins(len(out), nearMissInserts[r.Intn(len(nearMissInserts))])
		return out, "append-garbage"
	case 3:
		ins(0, nearMissInserts[r.Intn(len(nearMissInserts))])
		return out, "prepend-garbage"
	case 4:
		if ix := findAll(":"); len(ix) > 0 {
			out[ix[r.Intn(len(ix))]] = "=; ,"[r.Intn(4)]
			return out, "replace-colon"
		}
	case 5:
		if ix := findAll("\""); len(ix) > 0 {
			p := ix[r.Intn(len(ix))]
			if r.Chance(1, 2) {
				out = append(out[:p], out[p+1:]...)
				return out, "delete-quote"
			}
			out[p] = '\''
			return out, "single-quote"
		}
	case 6:
		if ix := findAll("tfn"); len(ix) > 0 {
			p := ix[r.Intn(len(ix))]
			out[p] -= 32
			return out, "uppercase-letter"
		}
	case 7:
		if ix := findAll("0123456789"); len(ix) > 0 {
			p := ix[r.Intn(len(ix))]
			ins(p, []string{"+", "0", ".", "-", "e", "E", "00", "0x", "_", "1.", ".e"}[r.Intn(11)])
			return out, "number-noise"
		}
	case 8:
		if ix := findAll(",]}"); len(ix) > 0 {
			p := ix[r.Intn(len(ix))]
			out = append(out[:p], out[p+1:]...)
			return out, "delete-separator-or-closer"
		}
	case 9:
		if ix := findAll("[{"); len(ix) > 0 {
			p := ix[r.Intn(len(ix))]
			if r.Chance(1, 2) {
				out = append(out[:p], out[p+1:]...)
				return out, "delete-opener"
			}
			out[p] ^= '[' ^ '{'
			return out, "swap-opener"
		}
	case 10:
		if ix := findAll("]}"); len(ix) > 0 {
			p := ix[r.Intn(len(ix))]
			out[p] ^= ']' ^ '}'
			return out, "swap-closer"
		}
	case 11:
		if ix := findAll("\\"); len(ix) > 0 {
			p := ix[r.Intn(len(ix))]
			if p+1 < len(out) {
				out[p+1] = "xa'0UvNe "[r.Intn(9)]
				return out, "bad-escape"
			}
		}
	case 12:
		if len(out) > 0 {
			p := r.Intn(len(out))
			out[p] = []byte{0x00, 0x01, 0x0a, 0x0d, 0x09, 0x1f, 0x7f, 0x80, 0xbf, 0xc0, 0xc3, 0xe2, 0xed, 0xf0, 0xf5, 0xff}[r.Intn(16)]
			return out, "byte-replace-control-or-high"
		}
	case 13:
		if len(out) > 0 {
			p := r.Intn(len(out))
			out = append(out[:p], out[p+1:]...)
			return out, "delete-byte"
		}
	case 14:
		if len(out) > 1 {
			// duplicate a slice
			a := r.Intn(len(out))
			b := a + 1 + r.Intn(min(8, len(out)-a))
			ins(pos(), string(out[a:b]))
			return out, "duplicate-slice"
		}
	}
	ins(pos(), nearMissInserts[r.Intn(len(nearMissInserts))])
	return out, "insert-fragment"
}
