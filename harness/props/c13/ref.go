package c13

// An independent, strict RFC 8259 recogniser and decoder (no code shared with /repo/json and none with
// encoding/json; the latter is only used as a cross-check of the accept/reject verdict).

import (
	"fmt"
	"math/big"
	"strings"
	"unicode/utf8"
)

type jkind int

const (
	jNull jkind = iota
	jBool
	jNum
	jStr
	jArr
	jObj
)

// jv is a decoded JSON value. For jNum, S is the literal text; for jStr, S is the unescaped content
// (a lone surrogate escape decodes to U+FFFD: it denotes no Unicode scalar value, a cty string is
// UTF-8 and json/spec.md asks for "the exact sequence of unicode characters represented").
type jv struct {
	K    jkind
	B    bool
	S    string
	Kids []*jv    // array elements / object member values
	Keys []string // object member names (unescaped), in source order, duplicates preserved
}

// refErr says why a byte string is not a JSON text: Class names the construct, Off the byte offset.
type refErr struct {
	Class string
	Off   int
}

func (e *refErr) Error() string { return fmt.Sprintf("%s at byte %d", e.Class, e.Off) }

type refParser struct {
	b []byte
	i int
	// strs records the raw extent (including both quotes) of every string token, for classification.
	strs [][2]int
	nums [][2]int
}

func (p *refParser) ws() {
	for p.i < len(p.b) {
		switch p.b[p.i] {
		case ' ', '\t', '\n', '\r':
			p.i++
		default:
			return
		}
	}
}

// classOfStrayByte names what a byte that cannot start a token looks like.
func (p *refParser) strayClass(at int) string {
	c := p.b[at]
	switch {
	case c >= 0x80:
		if r, n := utf8.DecodeRune(p.b[at:]); r == utf8.RuneError && n <= 1 {
			return "invalid-utf8-outside-string"
		} else if r == 0xFEFF {
			return "byte-order-mark"
		}
		return "non-ascii-outside-string"
	case c == '\'':
		return "single-quote"
	case c == '/' || c == '#':
		return "comment"
	case c == '=':
		return "equals-sign"
	case c < 0x20 || c == 0x7f:
		return "control-char-outside-string"
	case c == '+' || c == '.':
		return "number-bad-start"
	case (c >= 'a' && c <= 'z') || (c >= 'A' && c <= 'Z') || c == '_' || c == '$':
		return "bare-word"
	}
	return "stray-byte"
}

func refParse(b []byte) (*jv, *refParser, *refErr) {
	p := &refParser{b: b}
	p.ws()
	if p.i >= len(b) {
		return nil, p, &refErr{"empty-document", p.i}
	}
	v, err := p.value()
	if err != nil {
		return nil, p, err
	}
	p.ws()
	if p.i < len(b) {
		// whatever follows a complete top-level value is one class: the construct is "more input"
		cls := "trailing-data"
		return nil, p, &refErr{cls, p.i}
	}
	return v, p, nil
}

func (p *refParser) value() (*jv, *refErr) {
	if p.i >= len(p.b) {
		return nil, &refErr{"missing-value:end-of-input", p.i}
	}
	c := p.b[p.i]
	switch {
	case c == '{':
		return p.object()
	case c == '[':
		return p.array()
	case c == '"':
		s, err := p.str()
		if err != nil {
			return nil, err
		}
		return &jv{K: jStr, S: s}, nil
	case c == '-' || (c >= '0' && c <= '9'):
		return p.number()
	case c == 't' || c == 'f' || c == 'n':
		return p.literal()
	case c == '}' || c == ']' || c == ',' || c == ':':
		return nil, &refErr{"missing-value:before-" + map[byte]string{'}': "brace", ']': "bracket", ',': "comma", ':': "colon"}[c], p.i}
	}
	return nil, &refErr{p.strayClass(p.i), p.i}
}

func isWordByte(c byte) bool {
	return (c >= 'a' && c <= 'z') || (c >= 'A' && c <= 'Z') || (c >= '0' && c <= '9') || c == '_'
}

func (p *refParser) literal() (*jv, *refErr) {
	for _, l := range []struct {
		t string
		v *jv
	}{{"true", &jv{K: jBool, B: true}}, {"false", &jv{K: jBool}}, {"null", &jv{K: jNull}}} {
		if strings.HasPrefix(string(p.b[p.i:min(len(p.b), p.i+len(l.t))]), l.t) {
			end := p.i + len(l.t)
			if end < len(p.b) && isWordByte(p.b[end]) {
				return nil, &refErr{"bare-word", p.i}
			}
			p.i = end
			return l.v, nil
		}
	}
	return nil, &refErr{"bare-word", p.i}
}

func (p *refParser) number() (*jv, *refErr) {
	st := p.i
	b := p.b
	i := p.i
	dig := func() int {
		n := 0
		for i < len(b) && b[i] >= '0' && b[i] <= '9' {
			i++
			n++
		}
		return n
	}
	if b[i] == '-' {
		i++
	}
	if i >= len(b) || b[i] < '0' || b[i] > '9' {
		return nil, &refErr{"number-malformed", st}
	}
	if b[i] == '0' {
		i++
		if i < len(b) && b[i] >= '0' && b[i] <= '9' {
			return nil, &refErr{"number-leading-zero", st}
		}
	} else {
		dig()
	}
	if i < len(b) && b[i] == '.' {
		i++
		if dig() == 0 {
			return nil, &refErr{"number-malformed", st}
		}
	}
	if i < len(b) && (b[i] == 'e' || b[i] == 'E') {
		i++
		if i < len(b) && (b[i] == '+' || b[i] == '-') {
			i++
		}
		if dig() == 0 {
			return nil, &refErr{"number-malformed", st}
		}
	}
	p.i = i
	p.nums = append(p.nums, [2]int{st, i})
	return &jv{K: jNum, S: string(b[st:i])}, nil
}

func hex4(b []byte) (rune, bool) {
	if len(b) < 4 {
		return 0, false
	}
	var r rune
	for _, c := range b[:4] {
		switch {
		case c >= '0' && c <= '9':
			r = r<<4 | rune(c-'0')
		case c >= 'a' && c <= 'f':
			r = r<<4 | rune(c-'a'+10)
		case c >= 'A' && c <= 'F':
			r = r<<4 | rune(c-'A'+10)
		default:
			return 0, false
		}
	}
	return r, true
}

func (p *refParser) str() (string, *refErr) {
	st := p.i
	b := p.b
	i := p.i + 1
	var out []byte
	for {
		if i >= len(b) {
			return "", &refErr{"unterminated-string", st}
		}
		c := b[i]
		switch {
		case c == '"':
			p.i = i + 1
			p.strs = append(p.strs, [2]int{st, p.i})
			return string(out), nil
		case c < 0x20:
			return "", &refErr{"control-char-in-string", i}
		case c == '\\':
			if i+1 >= len(b) {
				return "", &refErr{"unterminated-string", st}
			}
			e := b[i+1]
			switch e {
			case '"', '\\', '/':
				out = append(out, e)
				i += 2
			case 'b':
				out = append(out, 8)
				i += 2
			case 'f':
				out = append(out, 12)
				i += 2
			case 'n':
				out = append(out, 10)
				i += 2
			case 'r':
				out = append(out, 13)
				i += 2
			case 't':
				out = append(out, 9)
				i += 2
			case 'u':
				r, ok := hex4(b[i+2:])
				if !ok {
					return "", &refErr{"bad-unicode-escape", i}
				}
				i += 6
				if r >= 0xD800 && r < 0xDC00 {
					// high surrogate: pairs with an immediately following \uDC00..\uDFFF escape
					if i+1 < len(b) && b[i] == '\\' && b[i+1] == 'u' {
						if r2, ok2 := hex4(b[i+2:]); ok2 && r2 >= 0xDC00 && r2 < 0xE000 {
							out = utf8.AppendRune(out, 0x10000+(r-0xD800)<<10+(r2-0xDC00))
							i += 6
							continue
						}
					}
					out = utf8.AppendRune(out, 0xFFFD)
				} else if r >= 0xDC00 && r < 0xE000 {
					out = utf8.AppendRune(out, 0xFFFD)
				} else {
					out = utf8.AppendRune(out, r)
				}
			default:
				return "", &refErr{"bad-escape", i}
			}
		case c < 0x80:
			out = append(out, c)
			i++
		default:
			r, n := utf8.DecodeRune(b[i:])
			if r == utf8.RuneError && n <= 1 {
				return "", &refErr{"invalid-utf8-in-string", i}
			}
			out = append(out, b[i:i+n]...)
			i += n
		}
	}
}

func (p *refParser) array() (*jv, *refErr) {
	st := p.i
	p.i++
	v := &jv{K: jArr}
	p.ws()
	if p.i < len(p.b) && p.b[p.i] == ']' {
		p.i++
		return v, nil
	}
	for {
		p.ws()
		if p.i < len(p.b) && p.b[p.i] == ']' && len(v.Kids) > 0 {
			return nil, &refErr{"trailing-comma", p.i}
		}
		e, err := p.value()
		if err != nil {
			if err.Class == "missing-value:end-of-input" {
				return nil, &refErr{"unclosed-array", st}
			}
			return nil, err
		}
		v.Kids = append(v.Kids, e)
		p.ws()
		if p.i >= len(p.b) {
			return nil, &refErr{"unclosed-array", st}
		}
		switch c := p.b[p.i]; {
		case c == ',':
			p.i++
		case c == ']':
			p.i++
			return v, nil
		case c == '}':
			return nil, &refErr{"mismatched-closer", p.i}
		case c == ':':
			return nil, &refErr{"colon-in-array", p.i}
		default:
			return nil, p.afterValueErr(e, "array")
		}
	}
}

// afterValueErr classifies a byte that follows a complete value inside a container where a comma or
// the closer was required.
func (p *refParser) afterValueErr(last *jv, in string) *refErr {
	c := p.b[p.i]
	switch {
	case last.K == jNum && (c == '.' || c == 'e' || c == 'E' || c == '+' || c == '-' || (c >= '0' && c <= '9') || c == 'x' || c == 'X' || c == '_'):
		return &refErr{"number-malformed", p.i}
	case last.K <= jBool && isWordByte(c):
		return &refErr{"bare-word", p.i}
	case c == '"' || c == '{' || c == '[' || c == '-' || isWordByte(c):
		return &refErr{"missing-comma", p.i}
	}
	return &refErr{p.strayClass(p.i), p.i}
}

func (p *refParser) object() (*jv, *refErr) {
	st := p.i
	p.i++
	v := &jv{K: jObj}
	p.ws()
	if p.i < len(p.b) && p.b[p.i] == '}' {
		p.i++
		return v, nil
	}
	for {
		p.ws()
		if p.i >= len(p.b) {
			return nil, &refErr{"unclosed-object", st}
		}
		c := p.b[p.i]
		if c == '}' && len(v.Kids) > 0 {
			return nil, &refErr{"trailing-comma", p.i}
		}
		if c != '"' {
			switch {
			case c == '{' || c == '[' || c == '-' || (c >= '0' && c <= '9') || c == 't' || c == 'f' || c == 'n':
				return nil, &refErr{"non-string-key", p.i}
			case c == ',' || c == ':' || c == ']' || c == '}':
				return nil, &refErr{"missing-key", p.i}
			}
			return nil, &refErr{p.strayClass(p.i), p.i}
		}
		k, err := p.str()
		if err != nil {
			return nil, err
		}
		p.ws()
		if p.i >= len(p.b) {
			return nil, &refErr{"unclosed-object", st}
		}
		if p.b[p.i] != ':' {
			if p.b[p.i] == '=' {
				return nil, &refErr{"equals-sign", p.i}
			}
			return nil, &refErr{"missing-colon", p.i}
		}
		p.i++
		p.ws()
		e, err := p.value()
		if err != nil {
			if err.Class == "missing-value:end-of-input" {
				return nil, &refErr{"unclosed-object", st}
			}
			return nil, err
		}
		v.Keys = append(v.Keys, k)
		v.Kids = append(v.Kids, e)
		p.ws()
		if p.i >= len(p.b) {
			return nil, &refErr{"unclosed-object", st}
		}
		switch c := p.b[p.i]; {
		case c == ',':
			p.i++
		case c == '}':
			p.i++
			return v, nil
		case c == ']':
			return nil, &refErr{"mismatched-closer", p.i}
		default:
			return nil, p.afterValueErr(e, "object")
		}
	}
}

// numParts splits a (valid) JSON number literal.
type numParts struct {
	neg      bool
	digits   string // integer and fraction digits concatenated, no leading zeros stripped
	fracLen  int
	exp      *big.Int // the written exponent
	zeroMant bool
}

func splitNumber(lit string) numParts {
	var np numParts
	s := lit
	if strings.HasPrefix(s, "-") {
		np.neg = true
		s = s[1:]
	}
	np.exp = new(big.Int)
	if k := strings.IndexAny(s, "eE"); k >= 0 {
		np.exp.SetString(strings.TrimPrefix(s[k+1:], "+"), 10)
		s = s[:k]
	}
	if k := strings.IndexByte(s, '.'); k >= 0 {
		np.fracLen = len(s) - k - 1
		s = s[:k] + s[k+1:]
	}
	np.digits = s
	np.zeroMant = strings.Trim(s, "0") == ""
	return np
}

// exp10 is the power of ten that scales the digit string read as an integer; ok is false when it
// does not fit an int64.
func (np numParts) exp10() (int64, bool) {
	e := new(big.Int).Sub(np.exp, big.NewInt(int64(np.fracLen)))
	if !e.IsInt64() {
		return 0, false
	}
	return e.Int64(), true
}

// exactRat is the exact value of the literal (only call it for |exp10| small enough to materialise).
func (np numParts) exactRat() *big.Rat {
	m := new(big.Int)
	m.SetString(np.digits, 10)
	if np.neg {
		m.Neg(m)
	}
	e, _ := np.exp10()
	r := new(big.Rat).SetInt(m)
	if e == 0 || m.Sign() == 0 {
		return r
	}
	ae := e
	if ae < 0 {
		ae = -ae
	}
	p := new(big.Int).Exp(big.NewInt(10), big.NewInt(ae), nil)
	if e > 0 {
		return r.Mul(r, new(big.Rat).SetInt(p))
	}
	return r.Quo(r, new(big.Rat).SetInt(p))
}
