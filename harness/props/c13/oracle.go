package c13

import (
	"bytes"
	"encoding/hex"
	stdjson "encoding/json"
	"fmt"
	"math"
	"math/big"
	"os"
	"path/filepath"
	"regexp"
	"strings"
	"syscall"
	"time"
	"unicode/utf8"

	"github.com/apparentlymart/go-textseg/v15/textseg"
	"github.com/hashicorp/hcl/v2"
	"github.com/hashicorp/hcl/v2/hclparse"
	"github.com/hashicorp/hcl/v2/hclsyntax"
	hcljson "github.com/hashicorp/hcl/v2/json"
	"github.com/zclconf/go-cty/cty"
	"github.com/zclconf/go-cty/cty/convert"
	"golang.org/x/text/unicode/norm"

	"hx/lib"
)

func nfc(s string) string { return norm.NFC.String(s) }

// replayInput encodes arbitrary bytes (the result file is JSON, which cannot carry invalid UTF-8).
func replayInput(src []byte) string {
	m := map[string]string{"c13_hex": hex.EncodeToString(src), "text": lib.Trunc(strings.ToValidUTF8(string(src), "\ufffd"), 400)}
	b, _ := stdjson.Marshal(m)
	return string(b)
}

func decodeReplay(s string) []byte {
	var m map[string]string
	if err := stdjson.Unmarshal([]byte(s), &m); err == nil {
		if h, ok := m["c13_hex"]; ok {
			if b, err := hex.DecodeString(h); err == nil {
				return b
			}
		}
	}
	return []byte(s)
}

var slugRe = regexp.MustCompile(`[^a-z0-9]+`)

func slug(s string) string {
	return strings.Trim(slugRe.ReplaceAllString(strings.ToLower(s), "-"), "-")
}

func firstErr(d hcl.Diagnostics) string {
	for _, x := range d {
		if x.Severity == hcl.DiagError {
			return x.Summary
		}
	}
	return ""
}

type docOpts struct {
	origin  string
	gen     *jv  // the generator's tree when the document was rendered from one
	full    bool // also check full-expression mode
	noExact bool
}

type oracle struct {
	cx  *lib.Ctx
	ctx *hcl.EvalContext

	// the case being checked (for shrinking)
	curSrc    []byte
	curOp     docOpts
	curIn     string
	shrinking bool
	seen      map[string]int
	wd        *watchdog
	failCount int
	tmpDir    string
	fileN     int
}

// guard is cx.Guard with the panic failure routed through o.fail (so that it gets shrunk).
func (o *oracle) guard(key string, f func()) bool {
	saved := o.cx.Res
	tmp := lib.NewResult(saved.Property, saved.Tier, saved.Seed)
	o.cx.Res = tmp
	if o.wd != nil {
		o.wd.begin(key, o.curIn)
	}
	ok := o.cx.Guard(key, o.curIn, f)
	if o.wd != nil {
		o.wd.end()
	}
	o.cx.Res = saved
	for _, fl := range tmp.Failures {
		o.fail(fl)
	}
	return ok
}

// dry runs the oracles on b without recording anything and returns the failures.
func (o *oracle) dry(b []byte, op docOpts) []lib.Failure {
	savedRes, savedSrc, savedOp, savedIn, savedShr := o.cx.Res, o.curSrc, o.curOp, o.curIn, o.shrinking
	tmp := lib.NewResult(savedRes.Property, savedRes.Tier, savedRes.Seed)
	tmp.MaxPerKey = 1
	o.cx.Res = tmp
	o.shrinking = true
	op.gen = nil
	o.check(b, op)
	o.cx.Res, o.curSrc, o.curOp, o.curIn, o.shrinking = savedRes, savedSrc, savedOp, savedIn, savedShr
	return tmp.Failures
}

// fail records a failure; the first failure of every key is first shrunk (delta debugging on bytes,
// keeping the key) so that the result file carries a small replayable input.
func (o *oracle) fail(f lib.Failure) {
	if o.seen == nil {
		o.seen = map[string]int{}
	}
	o.seen[f.Key]++
	o.failCount++
	if o.shrinking || o.seen[f.Key] > 1 || len(o.curSrc) > 8000 || len(o.curSrc) < 2 {
		o.cx.Res.Fail(f)
		return
	}
	src, op := o.curSrc, o.curOp
	budget := 3000
	has := func(b []byte) *lib.Failure {
		if budget <= 0 {
			return nil
		}
		budget--
		for _, x := range o.dry(b, op) {
			if x.Key == f.Key {
				return &x
			}
		}
		return nil
	}
	cur := append([]byte{}, src...)
	best := f
	for chunk := len(cur) / 2; chunk >= 1; {
		removed := false
		for i := 0; i+chunk <= len(cur) && budget > 0; {
			cand := append(append([]byte{}, cur[:i]...), cur[i+chunk:]...)
			if x := has(cand); x != nil {
				cur, best, removed = cand, *x, true
			} else {
				i += chunk
			}
		}
		if chunk == 1 && !removed {
			break
		}
		if chunk > 1 {
			chunk /= 2
		}
		if budget <= 0 {
			break
		}
	}
	// small inputs: try every window, largest first, until nothing can be removed (this finds
	// removable members and elements wherever they are)
	budget += 20000
	for progress := true; progress && len(cur) <= 160 && budget > 0; {
		progress = false
	Windows:
		for l := len(cur) - 1; l >= 1; l-- {
			for i := 0; i+l <= len(cur); i++ {
				cand := append(append([]byte{}, cur[:i]...), cur[i+l:]...)
				if x := has(cand); x != nil {
					cur, best, progress = cand, *x, true
					break Windows
				}
				if budget <= 0 {
					break Windows
				}
			}
		}
	}
	if len(cur) < len(src) {
		best.Desc += fmt.Sprintf(" [shrunk from %d to %d bytes]", len(src), len(cur))
	}
	o.cx.Res.Fail(best)
}

// clusterSwallowsDelimiter reports whether, inside some string token, a grapheme cluster (as the
// segmenter used by the scanner sees it) contains a quote or a backslash that is not its first byte.
func clusterSwallowsDelimiter(src []byte, strs [][2]int) bool {
	for _, se := range strs {
		b := src[se[0]+1 : se[1]]
		for len(b) > 0 {
			adv, tok, _ := textseg.ScanGraphemeClusters(b, true)
			if adv <= 0 {
				break
			}
			if len(tok) > 1 && bytes.ContainsAny(tok[1:], "\"\\") {
				return true
			}
			b = b[adv:]
		}
	}
	return false
}

func hasHugeExponent(src []byte, nums [][2]int) bool {
	lim := new(big.Int).SetInt64(math.MaxInt32 - 4096)
	for _, se := range nums {
		np := splitNumber(string(src[se[0]:se[1]]))
		if new(big.Int).Abs(np.exp).Cmp(lim) >= 0 {
			return true
		}
	}
	return false
}

// check runs every oracle on one byte string and returns whether the case is non-trivial.
func (o *oracle) check(src []byte, op docOpts) bool {
	cx := o.cx
	res := cx.Res
	in := replayInput(src)
	o.curSrc, o.curOp, o.curIn = src, op, in

	tree, rp, rerr := refParse(src)
	refOK := rerr == nil
	stdOK := stdjson.Valid(src) && utf8.Valid(src)
	if refOK != stdOK {
		o.fail(lib.Failure{Kind: "oracle", Key: "harness-bug:reference-recogniser-disagrees-with-encoding-json", Desc: fmt.Sprintf("own recogniser says valid=%v (%v), encoding/json.Valid&&utf8.Valid says %v (%s)", refOK, rerr, stdOK, op.origin), Input: in})
		return false
	}
	if op.gen != nil {
		if !refOK || !sameTree(op.gen, tree) {
			o.fail(lib.Failure{Kind: "oracle", Key: "harness-bug:generator-disagrees-with-reference-decoder", Desc: fmt.Sprintf("rendered document does not decode to the generated tree (%v)", rerr), Input: in})
			return false
		}
	}
	if refOK {
		res.Count("valid")
		res.Count("valid-root:" + [...]string{"null", "bool", "number", "string", "array", "object"}[tree.K])
	} else {
		res.Count("invalid")
		res.Count("invalid:" + rerr.Class)
	}

	// (1) acceptance
	var expr hcl.Expression
	var ediags, fdiags hcl.Diagnostics
	var file *hcl.File
	if !o.guard("parse-expression", func() { expr, ediags = hcljson.ParseExpression(src, "") }) {
		return true
	}
	if !o.guard("parse", func() { file, fdiags = hcljson.Parse(src, "") }) {
		return true
	}
	exprOK, fileOK := !ediags.HasErrors(), !fdiags.HasErrors()
	o.corr(src, exprOK)
	wantFile := refOK && (tree.K == jArr || tree.K == jObj)

	mismatchKey := func(implAccepts bool, d hcl.Diagnostics) string {
		if implAccepts {
			if rerr.Class == "invalid-utf8-in-string" {
				return "accepts-invalid-utf8-in-string"
			}
			return "accepts:" + rerr.Class
		}
		// attribute by what the implementation complains about, then by what the input contains
		aboutNumber := strings.Contains(strings.ToLower(firstErr(d)), "number")
		switch {
		case aboutNumber && hasHugeExponent(src, rp.nums):
			return "rejects:number-exponent-out-of-range"
		case !aboutNumber && clusterSwallowsDelimiter(src, rp.strs):
			return "rejects:string-grapheme-cluster-swallows-quote-or-backslash"
		case hasHugeExponent(src, rp.nums):
			return "rejects:number-exponent-out-of-range"
		}
		return "rejects:" + slug(firstErr(d))
	}
	if exprOK != refOK {
		o.fail(lib.Failure{Kind: "oracle", Key: mismatchKey(exprOK, ediags),
			Desc:  fmt.Sprintf("json.ParseExpression accepts=%v but the input is valid JSON=%v (%v; %s)", exprOK, refOK, rerr, op.origin),
			Input: in, Impl: lib.Trunc(ediags.Error(), 400)})
	}
	if fileOK != wantFile {
		switch {
		case exprOK != refOK && fileOK == exprOK:
			// the same disagreement, already reported
		case refOK && fileOK && !wantFile:
			o.fail(lib.Failure{Kind: "oracle", Key: "parse-file:accepts:non-container-root", Desc: "json.Parse accepts a root value that is neither object nor array", Input: in})
		default:
			o.fail(lib.Failure{Kind: "oracle", Key: "parse-file:" + mismatchKey(fileOK, fdiags),
				Desc:  fmt.Sprintf("json.Parse accepts=%v, expected %v (valid JSON=%v %v; %s)", fileOK, wantFile, refOK, rerr, op.origin),
				Input: in, Impl: lib.Trunc(fdiags.Error(), 400)})
		}
	}
	// (1b) the entry points that read a file: same bytes, same verdict as json.Parse on the buffer
	o.fileRoute(src, fileOK, in)

	if !refOK {
		return len(src) > 1
	}
	if !exprOK {
		return true
	}

	// (2) literal-only mode
	failsBefore := o.failCount
	st := &litStats{}
	dup := hasDupNames(tree)
	var v cty.Value
	var vd hcl.Diagnostics
	if !o.guard("literal-mode-value", func() { v, vd = expr.Value(nil) }) {
		return true
	}
	switch {
	case dup && !vd.HasErrors():
		o.fail(lib.Failure{Kind: "oracle", Key: "literal:duplicate-names-not-rejected", Desc: "an object with a repeated member name evaluates without error in literal-only mode", Input: in, Impl: lib.Trunc(fmt.Sprintf("%#v", v), 300)})
	case !dup && vd.HasErrors():
		o.fail(lib.Failure{Kind: "oracle", Key: "literal:unexpected-evaluation-error", Desc: "literal-only evaluation of a JSON value without duplicate names fails", Input: in, Impl: lib.Trunc(vd.Error(), 300)})
	case !dup:
		if key, desc := o.cmpLiteral(v, tree, "$", st); key != "" {
			o.fail(lib.Failure{Kind: "oracle", Key: key, Desc: desc + " (" + op.origin + ")", Input: in})
		}
	default:
		res.Count("literal:duplicate-names-rejected")
	}
	st.flush(res)

	// the same tree through json.Parse: attribute expressions of a root object
	if fileOK && tree.K == jObj {
		o.checkBodyAttrs(file, tree, in)
	}

	// (3) full-expression mode
	if op.full && o.failCount == failsBefore {
		// (a document whose literal-only mapping is already wrong is not reported a second time)
		o.checkFull(expr, tree, in)
	}
	return st.nontrivial || tree.K >= jArr
}

func hasDupNames(t *jv) bool {
	if t.K == jObj {
		seen := map[string]bool{}
		for _, k := range t.Keys {
			nk := nfc(k)
			if seen[nk] {
				return true
			}
			seen[nk] = true
		}
	}
	for _, k := range t.Kids {
		if hasDupNames(k) {
			return true
		}
	}
	return false
}

type litStats struct {
	nontrivial                                          bool
	numExact, numRounded, strs, strsNFC, strsTmpl, lone int
}

func (s *litStats) flush(res *lib.Result) {
	add := func(k string, n int) {
		if n > 0 {
			res.Distribution[k] += n
		}
	}
	add("lit:numbers-exact", s.numExact)
	add("lit:non-integers-rounded-within-512-bits", s.numRounded)
	add("lit:strings", s.strs)
	add("lit:strings-changed-by-NFC", s.strsNFC)
	add("lit:strings-with-template-sequences", s.strsTmpl)
	add("lit:strings-with-U+FFFD(lone-surrogates)", s.lone)
}

// cmpLiteral compares the literal-only value with the JSON tree; it returns a failure key and text.
func (o *oracle) cmpLiteral(v cty.Value, t *jv, path string, st *litStats) (string, string) {
	if v == cty.NilVal {
		return "literal:nil-value", path + ": evaluation returned cty.NilVal"
	}
	if v.IsMarked() || (!v.IsKnown() && t.K != jNull) {
		return "literal:not-a-plain-known-value", fmt.Sprintf("%s: got %#v", path, v)
	}
	switch t.K {
	case jNull:
		if !v.RawEquals(cty.NullVal(cty.DynamicPseudoType)) {
			return "literal:null-not-dynamic-null", fmt.Sprintf("%s: null evaluates to %#v", path, v)
		}
	case jBool:
		if !v.RawEquals(cty.BoolVal(t.B)) {
			return "literal:bool-value", fmt.Sprintf("%s: %v evaluates to %#v", path, t.B, v)
		}
	case jStr:
		st.strs++
		want := nfc(t.S)
		if want != t.S {
			st.strsNFC++
		}
		if strings.Contains(t.S, "${") || strings.Contains(t.S, "%{") {
			st.strsTmpl++
			st.nontrivial = true
		}
		if strings.ContainsRune(t.S, 0xFFFD) {
			st.lone++
		}
		if strings.ContainsAny(t.S, "\"\\\n\t") || !isASCII(t.S) {
			st.nontrivial = true
		}
		if v.Type() != cty.String || v.IsNull() {
			return "literal:string-not-string", fmt.Sprintf("%s: a string evaluates to %#v", path, v)
		}
		if got := v.AsString(); got != want {
			return "literal:string-value", fmt.Sprintf("%s: string evaluates to %q, want %q", path, got, want)
		}
	case jNum:
		if v.Type() != cty.Number || v.IsNull() {
			return "literal:number-not-number", fmt.Sprintf("%s: number %s evaluates to %#v", path, lib.Trunc(t.S, 80), v)
		}
		if len(t.S) > 3 {
			st.nontrivial = true
		}
		key, desc := numCheck(t.S, v.AsBigFloat(), st)
		if key != "" {
			return key, path + ": " + desc
		}
	case jArr:
		if !v.Type().IsTupleType() || v.IsNull() {
			return "literal:array-not-tuple", fmt.Sprintf("%s: array evaluates to a value of type %s", path, v.Type().FriendlyName())
		}
		if v.LengthInt() != len(t.Kids) {
			return "literal:array-length", fmt.Sprintf("%s: array of %d elements evaluates to a tuple of %d", path, len(t.Kids), v.LengthInt())
		}
		for i, k := range t.Kids {
			if key, desc := o.cmpLiteral(v.Index(cty.NumberIntVal(int64(i))), k, fmt.Sprintf("%s[%d]", path, i), st); key != "" {
				return key, desc
			}
		}
	case jObj:
		if !v.Type().IsObjectType() || v.IsNull() {
			return "literal:object-not-object", fmt.Sprintf("%s: object evaluates to a value of type %s", path, v.Type().FriendlyName())
		}
		if len(v.Type().AttributeTypes()) != len(t.Keys) {
			return "literal:object-attribute-set", fmt.Sprintf("%s: object with %d members evaluates to an object with %d attributes", path, len(t.Keys), len(v.Type().AttributeTypes()))
		}
		for i, k := range t.Kids {
			name := nfc(t.Keys[i])
			if !v.Type().HasAttribute(name) {
				return "literal:object-attribute-set", fmt.Sprintf("%s: member %q is missing from the object value", path, name)
			}
			if key, desc := o.cmpLiteral(v.GetAttr(name), k, path+"."+name, st); key != "" {
				return key, desc
			}
		}
	}
	return "", ""
}

func isASCII(s string) bool {
	for i := 0; i < len(s); i++ {
		if s[i] >= 0x80 {
			return false
		}
	}
	return true
}

const exactExpLimit = 40000

// numCheck compares the cty number with the exact decimal value of the literal.
//
// json/spec.md: "translate exactly the value given to a number of corresponding precision, within
// the constraints set by the HCL syntax-agnostic information model"; the latter (spec.md, Primitive
// Types) wants an error for an integer that cannot be represented precisely and rounding to the
// nearest representable value for a non-integer. cty numbers are big.Floats with a 512-bit
// mantissa, so: exactly representable literals must be exact; non-integers must be the nearest
// 512-bit value (not reported); integers that are rounded are the known finding.
func numCheck(lit string, g *big.Float, st *litStats) (string, string) {
	np := splitNumber(lit)
	show := lib.Trunc(lit, 60)
	if np.zeroMant {
		if g.Sign() != 0 || g.IsInf() {
			return "literal:number-value", fmt.Sprintf("zero literal %s evaluates to a non-zero number", show)
		}
		st.numExact++
		return "", ""
	}
	if g.IsInf() {
		return "number-range:finite-literal-became-infinity", fmt.Sprintf("%s evaluates to an infinity", show)
	}
	if g.Sign() == 0 {
		return "number-range:nonzero-literal-became-zero", fmt.Sprintf("%s evaluates to zero", show)
	}
	if (g.Sign() < 0) != np.neg {
		return "literal:number-sign", fmt.Sprintf("%s evaluates to a number of the opposite sign", show)
	}
	e10, ok := np.exp10()
	if !ok {
		return "", "" // beyond anything checkable (and rejected by the parser, which is reported elsewhere)
	}
	sig := strings.TrimLeft(np.digits, "0")
	// value = 0.sig * 10^dexp
	dexp := float64(e10) + float64(len(sig))
	wantExp2 := dexp * math.Log2(10)
	gotExp2 := float64(g.MantExp(nil))
	if math.Abs(gotExp2-wantExp2) > 8+math.Abs(wantExp2)*1e-9 {
		return "literal:number-value", fmt.Sprintf("%s evaluates to a number of magnitude 2^%.0f, want about 2^%.1f", show, gotExp2, wantExp2)
	}
	if e10 > exactExpLimit || e10 < -exactExpLimit {
		return "", "" // magnitude checked only
	}
	q := np.exactRat()
	gr, _ := g.Rat(nil)
	if gr.Cmp(q) == 0 {
		st.numExact++
		return "", ""
	}
	// is q representable with a 512-bit mantissa?
	representable := false
	if d := q.Denom(); new(big.Int).And(d, new(big.Int).Sub(d, big.NewInt(1))).Sign() == 0 {
		n := new(big.Int).Abs(q.Num())
		representable = n.BitLen()-int(n.TrailingZeroBits()) <= 512
	}
	if representable {
		return "number-precision:inexact-though-representable", fmt.Sprintf("%s is exactly representable with a 512-bit mantissa but evaluates to %s", show, lib.Trunc(gr.RatString(), 200))
	}
	// Rounding to nearest at 512 bits means a relative error of at most 2^-512; big.Float's decimal
	// conversion works with 64 guard bits, so allow a hair more (2^-512 * (1 + 2^-16)).
	diff := new(big.Rat).Sub(gr, q)
	diff.Abs(diff)
	bound := new(big.Rat).Abs(q)
	bound.Mul(bound, big.NewRat(1<<16+1, 1<<16))
	bound.Quo(bound, new(big.Rat).SetInt(new(big.Int).Lsh(big.NewInt(1), 512)))
	if diff.Cmp(bound) > 0 {
		return "number-precision:worse-than-512-bits", fmt.Sprintf("%s evaluates to a number that is not the nearest one with a 512-bit mantissa (relative error above 2^-512)", show)
	}
	if q.IsInt() {
		return "number-precision:rounded-to-512-bits", fmt.Sprintf("integer literal %s cannot be represented with a 512-bit mantissa and is silently rounded instead of being rejected", show)
	}
	st.numRounded++
	return "", ""
}

// checkBodyAttrs: json.Parse must have built the same tree; observe it through JustAttributes.
func (o *oracle) checkBodyAttrs(file *hcl.File, tree *jv, in string) {
	var attrs hcl.Attributes
	if !o.guard("just-attributes", func() { attrs, _ = file.Body.JustAttributes() }) {
		return
	}
	seen := map[string]bool{}
	for i, k := range tree.Keys {
		if k == "//" || seen[k] {
			continue
		}
		seen[k] = true
		a, ok := attrs[k]
		if !ok {
			o.fail(lib.Failure{Kind: "oracle", Key: "parse-file:member-missing-from-body", Desc: fmt.Sprintf("root member %q is not among the body's attributes", k), Input: in})
			return
		}
		sub := tree.Kids[i]
		var v cty.Value
		var d hcl.Diagnostics
		if !o.guard("literal-mode-value", func() { v, d = a.Expr.Value(nil) }) {
			return
		}
		if hasDupNames(sub) {
			if !d.HasErrors() {
				o.fail(lib.Failure{Kind: "oracle", Key: "literal:duplicate-names-not-rejected", Desc: fmt.Sprintf("attribute %q (via json.Parse): repeated member name evaluates without error", k), Input: in})
				return
			}
			continue
		}
		if d.HasErrors() {
			o.fail(lib.Failure{Kind: "oracle", Key: "literal:unexpected-evaluation-error", Desc: fmt.Sprintf("attribute %q (via json.Parse): %s", k, d.Error()), Input: in})
			return
		}
		if key, desc := o.cmpLiteral(v, sub, "$."+k, &litStats{}); key != "" {
			// number findings were already reported through ParseExpression under the same key
			o.fail(lib.Failure{Kind: "oracle", Key: key, Desc: desc + " (via json.Parse / JustAttributes)", Input: in})
			return
		}
	}
	n := 0
	for range seen {
		n++
	}
	if len(attrs) != n {
		o.fail(lib.Failure{Kind: "oracle", Key: "parse-file:extra-attribute-in-body", Desc: fmt.Sprintf("body has %d attributes, the root object has %d distinct member names (// excluded)", len(attrs), n), Input: in})
	}
}

// ---------------------------------------------------------------------------
// full-expression mode

type fullRes struct {
	v         cty.Value
	err       bool
	markedKey bool // an object member name evaluated to a marked value (result unspecified)
	strs      int
	tmplOK    int
}

// evalFull is the specification of full-expression mode (json/spec.md "Expressions"), built on
// hclsyntax.ParseTemplate for strings.
func (o *oracle) evalFull(t *jv, fr *fullRes) cty.Value {
	switch t.K {
	case jNull:
		return cty.NullVal(cty.DynamicPseudoType)
	case jBool:
		return cty.BoolVal(t.B)
	case jNum:
		n, err := cty.ParseNumberVal(t.S)
		if err != nil {
			fr.err = true
			return cty.DynamicVal
		}
		return n
	case jStr:
		return o.evalTemplate(t.S, fr)
	case jArr:
		vals := make([]cty.Value, len(t.Kids))
		for i, k := range t.Kids {
			vals[i] = o.evalFull(k, fr)
		}
		return cty.TupleVal(vals)
	}
	attrs := map[string]cty.Value{}
	known := true
	for i, k := range t.Keys {
		name := o.evalTemplate(k, fr)
		val := o.evalFull(t.Kids[i], fr)
		if name.IsMarked() {
			fr.markedKey = true
			name, _ = name.Unmark()
		}
		name, err := convert.Convert(name, cty.String)
		if err != nil {
			fr.err = true
			continue
		}
		if name.IsMarked() {
			fr.markedKey = true
			name, _ = name.Unmark()
		}
		if name.IsNull() {
			fr.err = true
			continue
		}
		if !name.IsKnown() {
			known = false
			continue
		}
		ns := name.AsString()
		if _, dup := attrs[ns]; dup {
			fr.err = true
			continue
		}
		attrs[ns] = val
	}
	if !known {
		return cty.DynamicVal
	}
	return cty.ObjectVal(attrs)
}

func (o *oracle) evalTemplate(content string, fr *fullRes) cty.Value {
	fr.strs++
	e, d := hclsyntax.ParseTemplate([]byte(content), "", hcl.InitialPos)
	if d.HasErrors() {
		fr.err = true
		return cty.DynamicVal
	}
	v, vd := e.Value(o.ctx)
	if vd.HasErrors() {
		fr.err = true
	} else if strings.Contains(content, "${") || strings.Contains(content, "%{") {
		fr.tmplOK++
	}
	return v
}

func (o *oracle) checkFull(expr hcl.Expression, tree *jv, in string) {
	cx := o.cx
	res := cx.Res
	fr := &fullRes{}
	var want cty.Value
	if !o.guard("harness-bug:full-mode-specification", func() { want = o.evalFull(tree, fr) }) {
		return
	}
	res.Count("full:documents")
	res.Distribution["full:strings-as-templates"] += fr.strs
	res.Distribution["full:templates-with-sequences-evaluated-ok"] += fr.tmplOK
	gkey := "full-mode-value"
	if fr.markedKey {
		gkey = "full-mode-value:marked-object-key"
		res.Count("full:marked-object-key")
	}
	var got cty.Value
	var gd hcl.Diagnostics
	if !o.guard(gkey, func() { got, gd = expr.Value(o.ctx) }) {
		return
	}
	if fr.markedKey {
		return // what a marked member name should produce is not specified; only a panic is reported
	}
	if gd.HasErrors() != fr.err {
		exp := "expected-ok"
		if fr.err {
			exp = "expected-error"
			res.Count("full:expected-error")
		}
		o.fail(lib.Failure{Kind: "oracle", Key: "full:error-mismatch:" + exp, Desc: fmt.Sprintf("full-expression mode: implementation error=%v, native template evaluation of the decoded strings error=%v", gd.HasErrors(), fr.err), Input: in, Impl: lib.Trunc(gd.Error(), 300)})
		return
	}
	if fr.err {
		res.Count("full:expected-error")
		return
	}
	res.Count("full:expected-ok")
	var gs, ws string
	if !o.guard("harness-bug:dump-value", func() { gs, ws = lib.DumpValue(got), lib.DumpValue(want) }) {
		return
	}
	if gs != ws {
		o.fail(lib.Failure{Kind: "oracle", Key: "full:value-mismatch:" + diffKind(got, want, tree), Desc: "full-expression mode: value differs from what the native template parser assigns to the decoded string contents; want " + lib.Trunc(ws, 300), Input: in, Impl: lib.Trunc(gs, 300)})
	}
}

// diffKind names the kind of JSON value at which two full-mode results first differ.
func diffKind(got, want cty.Value, t *jv) string {
	plain := func(v cty.Value) bool { return v != cty.NilVal && !v.IsMarked() && v.IsKnown() && !v.IsNull() }
	if plain(got) && plain(want) {
		switch {
		case t.K == jArr && got.Type().IsTupleType() && want.Type().IsTupleType() && got.LengthInt() == want.LengthInt() && want.LengthInt() == len(t.Kids):
			for i, k := range t.Kids {
				ix := cty.NumberIntVal(int64(i))
				if g, w := got.Index(ix), want.Index(ix); lib.DumpValue(g) != lib.DumpValue(w) {
					return diffKind(g, w, k)
				}
			}
		case t.K == jObj && got.Type().IsObjectType() && want.Type().IsObjectType():
			if !got.Type().Equals(want.Type()) && len(got.Type().AttributeTypes()) != len(want.Type().AttributeTypes()) {
				return "object-member-names"
			}
			for name := range want.Type().AttributeTypes() {
				if !got.Type().HasAttribute(name) {
					return "object-member-names"
				}
			}
			return "object-member-value"
		}
	}
	return [...]string{"null", "bool", "number", "string", "array", "object"}[t.K]
}

// fileRoute: json.ParseFile and hclparse.Parser.ParseJSONFile read the bytes from a file and must then behave
// exactly like json.Parse on those bytes (acceptance; no trimming, no byte-order-mark handling, no
// re-encoding).  Run on one input in eight, and on every input that has a byte order mark near its start.
func (o *oracle) fileRoute(src []byte, bufOK bool, in string) {
	o.fileN++
	bomNear := bytes.Contains(src[:minInt(len(src), 8)], []byte("\xef\xbb\xbf"))
	if o.shrinking || (!bomNear && o.fileN%8 != 0) || len(src) > 1<<20 {
		return
	}
	if o.tmpDir == "" {
		d, err := os.MkdirTemp("", "hx-c13-")
		if err != nil {
			return
		}
		o.tmpDir = d
	}
	path := filepath.Join(o.tmpDir, "doc.json")
	if err := os.WriteFile(path, src, 0o600); err != nil {
		return
	}
	var d1, d2 hcl.Diagnostics
	if !o.guard("parse-file-from-disk", func() {
		_, d1 = hcljson.ParseFile(path)
		_, d2 = hclparse.NewParser().ParseJSONFile(path)
	}) {
		return
	}
	o.cx.Res.Count("file-route")
	if o.fileN%128 == 0 {
		defer o.pipeRoute(src, bufOK, in)
	}
	for _, x := range []struct {
		name string
		ok   bool
		d    hcl.Diagnostics
	}{{"json.ParseFile", !d1.HasErrors(), d1}, {"hclparse.ParseJSONFile", !d2.HasErrors(), d2}} {
		if x.ok != bufOK {
			key := "parse-file-route:rejects-what-parse-accepts"
			if x.ok {
				key = "parse-file-route:accepts-what-parse-rejects"
			}
			if bomNear {
				key += ":byte-order-mark"
			}
			o.fail(lib.Failure{Kind: "oracle", Key: key, Desc: fmt.Sprintf("%s on a file accepts=%v, json.Parse on the same bytes accepts=%v", x.name, x.ok, bufOK), Input: in, Impl: lib.Trunc(x.d.Error(), 300)})
			return
		}
	}
}

// pipeRoute: the same through a named pipe — a path whose reported size says nothing about its content (a
// pipe, /dev/stdin, process substitution, a file still being written): the whole content must be read.
func (o *oracle) pipeRoute(src []byte, bufOK bool, in string) {
	if o.tmpDir == "" || len(src) > 60000 {
		return
	}
	path := filepath.Join(o.tmpDir, fmt.Sprintf("pipe-%d.json", o.fileN))
	if err := syscall.Mkfifo(path, 0o600); err != nil {
		o.cx.Res.Count("pipe-route:mkfifo-unavailable")
		return
	}
	defer os.Remove(path)
	done := make(chan struct{})
	go func() {
		defer close(done)
		f, err := os.OpenFile(path, os.O_WRONLY, 0)
		if err != nil {
			return
		}
		// two writes, so that a single read does not see everything
		half := len(src) / 2
		f.Write(src[:half])
		f.Write(src[half:])
		f.Close()
	}()
	var d1 hcl.Diagnostics
	ok := o.guard("parse-file-from-pipe", func() { _, d1 = hcljson.ParseFile(path) })
	select {
	case <-done:
	case <-time.After(5 * time.Second):
		// the reader never opened the pipe: unblock the writer
		if f, err := os.OpenFile(path, os.O_RDONLY|syscall.O_NONBLOCK, 0); err == nil {
			f.Close()
		}
		<-done
	}
	if !ok {
		return
	}
	o.cx.Res.Count("pipe-route")
	if got := !d1.HasErrors(); got != bufOK {
		key := "parse-file-route:pipe:rejects-what-parse-accepts"
		if got {
			key = "parse-file-route:pipe:accepts-what-parse-rejects"
		}
		o.fail(lib.Failure{Kind: "oracle", Key: key, Desc: fmt.Sprintf("json.ParseFile on a named pipe accepts=%v, json.Parse on the same bytes accepts=%v", got, bufOK), Input: in, Impl: lib.Trunc(d1.Error(), 300)})
	}
}

func minInt(a, b int) int {
	if a < b {
		return a
	}
	return b
}
