package c19

import (
	"strings"

	"github.com/zclconf/go-cty/cty"

	"hx/lib"
	"hx/props/evalgen"
)

// variantStream: failing accesses whose requested name is a NEAR MISS of a name that exists only because of a
// marked value — an object key computed from a marked string, the keys of a marked map turned into an object, the
// attribute names of a marked object. A message that helpfully names the existing attribute ("did you mean …")
// would print the marked content; a random name or a swapped secret never comes close enough to trigger it.
func variantStream(cx *lib.Ctx, s evalgen.Scope, sc []string) {
	variants := func(name string) []string {
		var out []string
		for _, v := range []string{strings.ToLower(name), strings.ToUpper(name), strings.ReplaceAll(name, "-", "_"), strings.ToLower(strings.ReplaceAll(name, "-", "_")), name + "x", name[:len(name)-1]} {
			if v != name && v != "" {
				out = append(out, v)
			}
		}
		return out
	}
	str := func(name string) (string, bool) {
		v, ok := s[name]
		if !ok {
			return "", false
		}
		u, _ := v.Unmark()
		if u.Type() != cty.String || u.IsNull() || !u.IsKnown() {
			return "", false
		}
		return u.AsString(), true
	}
	var srcs []string
	if t, ok := str("sec_s"); ok {
		for _, v := range variants(t) {
			srcs = append(srcs, `{ (sec_s) = "enabled" }.`+v, `{ "${sec_s}-main" = true }.`+v+`-main`, `{ (sec_s) = "enabled" }["`+v+`"]`,
				`[{ (sec_s) = 1 }][0].`+v, `{ (sec_s) = 1 }.*.`+v, `[{ (sec_s) = 1 }][*].`+v, `{ outer = { (sec_s) = 1 } }.outer.`+v)
		}
	}
	for _, name := range []string{"sec_map", "sec_obj", "sec_obj1", "sec_map1"} {
		v, ok := s[name]
		if !ok {
			continue
		}
		u, _ := v.UnmarkDeep()
		if !u.IsKnown() || u.IsNull() || !u.CanIterateElements() {
			continue
		}
		for it := u.ElementIterator(); it.Next(); {
			k, _ := it.Element()
			if k.Type() != cty.String {
				continue
			}
			for _, vr := range variants(k.AsString()) {
				srcs = append(srcs, name+"."+vr, `{ for k, v in `+name+` : k => v }.`+vr, name+`["`+vr+`"]`)
			}
			break
		}
	}
	for _, src := range srcs {
		checkExprSource(cx, src, nil, s, sc, "variant")
	}
	cx.Res.Count("variant-family-sources")
	_ = lib.Trunc
}
