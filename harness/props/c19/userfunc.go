package c19

import (
	"github.com/hashicorp/hcl/v2"
	"github.com/hashicorp/hcl/v2/ext/userfunc"
	"github.com/hashicorp/hcl/v2/hclsyntax"
	"github.com/zclconf/go-cty/cty"
	"github.com/zclconf/go-cty/cty/function"

	"hx/lib"
	"hx/props/evalgen"
)

// Functions declared in the configuration itself (ext/userfunc) are HCL's own: their result expression is
// evaluated by hclsyntax in a context holding the arguments — which cty has unmarked before the call, because
// user function parameters do not allow marks. A run-time failure inside such a function must not bring the
// arguments' content out, neither in the message nor through the evaluation context attached to a diagnostic
// (the text writer prints the variables of a diagnostic's expression from that context).

const userFuncSrc = `
function "uf_lookup" {
  params = [key]
  result = uf_table[key]
}
function "uf_nth" {
  params = [idx]
  result = ["a", "b", "c"][idx]
}
function "uf_add" {
  params = [a, b]
  result = a + b
}
function "uf_attr" {
  params = [o]
  result = o.nokey
}
function "uf_not" {
  params = [b]
  result = !b
}
function "uf_tmpl" {
  params = [v]
  result = "x-${v}"
}
function "uf_first" {
  params = []
  variadic_param = rest
  result = rest[0] * 2
}
function "uf_for" {
  params = [coll]
  result = {for x in coll : x => 1}
}
function "uf_nested" {
  params = [k]
  result = uf_lookup(k)
}
`

var userFuncFamilies = []string{
	`uf_lookup(sec_s)`, `uf_lookup(sec_ns)`, `uf_lookup(sec_n)`, `uf_lookup(sec_nested.inner.token)`, `uf_lookup(sec_list[0])`, `uf_lookup(sec_map2.token)`,
	`uf_nth(sec_n)`, `uf_nth(sec_ns)`, `uf_nth(sec_s)`, `uf_nth(sec_nlist[1])`, `uf_nth(sec_nested.inner.id)`,
	`uf_add(sec_s, 1)`, `uf_add(1, sec_s)`, `uf_add(sec_n, sec_s)`, `uf_add(sec_list_el[0], 2)`, `uf_add(sec_list, 1)`,
	`uf_attr(sec_s)`, `uf_attr(sec_obj)`, `uf_attr(sec_obj1)`, `uf_attr(sec_map2)`, `uf_attr(sec_nested.inner)`,
	`uf_not(sec_s)`, `uf_not(sec_n)`, `uf_tmpl(sec_list)`, `uf_tmpl(sec_obj)`, `uf_tmpl(sec_map_el)`,
	`uf_first(sec_s, 1)`, `uf_first(sec_list...)`, `uf_first(sec_list_el...)`,
	`uf_for(sec_dup)`, `uf_for(sec_dup_both)`, `uf_for(sec_nlist)`, `uf_for([sec_s, sec_s])`,
	`uf_nested(sec_s)`, `uf_nested(sec_n)`, `"v: ${uf_lookup(sec_s)}"`, `[for k in sec_list_el : uf_lookup(k)]`, `uf_lookup(sec_s) == "a" ? 1 : 2`,
}

// userFuncs decodes the declarations with the given base context (variables the function bodies may use).
func userFuncs(base *hcl.EvalContext) (map[string]function.Function, *hcl.File, hcl.Diagnostics) {
	f, diags := hclsyntax.ParseConfig([]byte(userFuncSrc), "functions.hcl", hcl.InitialPos)
	if diags.HasErrors() {
		return nil, f, diags
	}
	funcs, _, d2 := userfunc.DecodeUserFunctions(f.Body, "function", func() *hcl.EvalContext { return base })
	return funcs, f, d2
}

func userFuncStream(cx *lib.Ctx, s evalgen.Scope, sc []string) {
	for _, src := range userFuncFamilies {
		checkUserFunc(cx, src, s, sc, "userfunc")
	}
}

func checkUserFunc(cx *lib.Ctx, src string, s evalgen.Scope, sc []string, origin string) {
	res := cx.Res
	base := evalgen.Ctx(s)
	base.Variables["uf_table"] = cty.MapVal(map[string]cty.Value{"alpha": cty.StringVal("one"), "beta": cty.StringVal("two")})
	funcs, ffile, diags := userFuncs(base)
	if diags.HasErrors() {
		res.Fail(lib.Failure{Kind: "oracle", Key: "harness:userfunc-declarations", Desc: diags.Error(), Input: userFuncSrc})
		return
	}
	for n, f := range funcs {
		base.Functions[n] = f
	}
	e, pd := hclsyntax.ParseExpression([]byte(src), "expr.hcl", hcl.InitialPos)
	if pd.HasErrors() {
		res.Fail(lib.Failure{Kind: "oracle", Key: "harness:userfunc-family-unparseable", Desc: pd.Error(), Input: src})
		return
	}
	c := &evalgen.Case{Scope: s, Src: src, Expr: e}
	input := func() string { return c.Encode("C19", "userfunc", extra{Secrets: sc}) }
	var ds hcl.Diagnostics
	if !cx.Guard("eval-userfunc", input(), func() { _, ds = e.Value(base) }) {
		return
	}
	if len(ds) == 0 {
		res.Count(origin + ":no-diagnostics")
		res.Case("userfunc|"+src, false)
		return
	}
	res.Count(origin + ":with-diagnostics")
	files := map[string]*hcl.File{"expr.hcl": {Bytes: []byte(src)}, "functions.hcl": ffile}
	checkDiags(cx, ds, files, sc, input, origin)
	res.Case("userfunc|"+src, true)
}
