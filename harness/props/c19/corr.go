package c19

import (
	"encoding/hex"
	"fmt"
	"regexp"
	"strconv"
	"strings"

	"github.com/hashicorp/hcl/v2"
	"github.com/hashicorp/hcl/v2/hclsyntax"
	"github.com/zclconf/go-cty/cty"

	"hx/lib"
	"hx/props/c01"
)

// corrFrags ties the fragments of the model's diagnostics (HclModel/Expr/Eval.lean: Diag.frags, the values
// whose content a message echoes; subject of the C19 theorems in Props/C19.lean) to the real messages:
// for generated object for-expressions with duplicate keys over marked / unmarked collections, conditions and
// key expressions (also nested in an outer for, where the iteration variable holds content of a collection
// that is marked at the top only), the Detail of every real "Duplicate object key" diagnostic names the key
// iff the model's diagnostic at the same position has that key as its fragment. The model also reports
// which fragments carry the ghost taint ("entered the evaluation inside a marked value"; an over-approximation:
// list / tuple / map indexing joins the taint of the key, as Go joins its marks): an echoed key that contains
// a string which occurs in the scope at or below marks only must be tainted; and for expressions that pass
// the side condition of taint_partial (Props/C19.lean; the model reports `fclean [] e`) no fragment is tainted
// (self-test of the theorem on the executable model) and the real Detail names no such string (the theorem
// against the real code).
func corrFrags(cx *lib.Ctx) {
	if !cx.HasModel() {
		return
	}
	R := cx.R.Fork()
	n := cx.Scale(2500, 60000)
	for i := 0; i < n; i++ {
		corrFragsCase(cx, R.Fork())
	}
}

var dupDetailRe = regexp.MustCompile(`^Two different items produced the key ("(?:[^"\\]|\\.)*") in this 'for' expression\.`)

const dupGeneric = "Two different items produced the same key in this 'for' expression."

func fragKey(r *lib.Rand) string {
	b := make([]byte, 10)
	for i := range b {
		b[i] = alnum[r.Intn(len(alnum))]
	}
	return "K-" + string(b)
}

func corrFragsCase(cx *lib.Ctx, r *lib.Rand) {
	res := cx.Res
	mark := func(v cty.Value) cty.Value { return v.Mark(Mark) }
	maybe := func(v cty.Value, num, den int) cty.Value {
		if r.Chance(num, den) {
			return mark(v)
		}
		return v
	}
	keys := []string{fragKey(r), fragKey(r), fragKey(r)}
	pick := func() cty.Value { return cty.StringVal(keys[r.Intn(len(keys))]) }

	// the collection: 2..5 strings from a pool of 3 (duplicates are likely), as list / tuple / map / object;
	// marks at the top, on single elements, or nowhere
	nel := 2 + r.Intn(4)
	elemMode := r.Intn(4) // 0: none, 1: all, 2..3: each with probability 1/3
	var elems []cty.Value
	for j := 0; j < nel; j++ {
		v := pick()
		switch elemMode {
		case 1:
			v = mark(v)
		case 2, 3:
			v = maybe(v, 1, 3)
		}
		elems = append(elems, v)
	}
	var coll cty.Value
	kind := r.Intn(4)
	switch kind {
	case 0:
		coll = cty.ListVal(elems)
	case 1:
		coll = cty.TupleVal(elems)
	default:
		m := map[string]cty.Value{}
		for j, e := range elems {
			m[fmt.Sprintf("e%d", j)] = e
		}
		if kind == 2 {
			coll = cty.MapVal(m)
		} else {
			coll = cty.ObjectVal(m)
		}
	}
	coll = maybe(coll, 1, 3)

	vars := map[string]cty.Value{
		"coll": coll,
		"ct":   maybe(cty.True, 1, 2),
		"us":   cty.StringVal("-u"),
		"ms":   mark(cty.StringVal("-m")),
		"uk":   pick(),
		"mk":   mark(pick()),
		"lk": maybe(cty.MapVal(map[string]cty.Value{
			keys[0]: cty.StringVal(keys[1]), keys[1]: cty.StringVal(keys[1]), keys[2]: maybe(cty.StringVal(keys[0]), 1, 3),
		}), 1, 4),
	}

	keyExprs := []string{`v`, `v`, `v`, `"${v}"`, `cat(v, us)`, `cat(v, ms)`, `lk[v]`, `uk`, `mk`, `"const"`, `ct ? v : uk`, `k == "e0" ? mk : v`}
	conds := []string{``, ``, ``, ` if true`, ` if ct`, ` if v != "zz"`, ` if v != ms`, ` if k != mk`}
	keyE := r.Pick(keyExprs)
	cond := r.Pick(conds)
	val := r.Pick([]string{`1`, `v`, `k`})
	group := ""
	if r.Chance(1, 12) {
		group = "..."
	}
	src := fmt.Sprintf(`{for k, v in coll : %s => %s%s%s}`, keyE, val, group, cond)
	nested := false
	switch r.Intn(6) {
	case 0:
		// the outer iteration variable holds elements of `coll` without the marks of `coll`
		nested = true
		src = fmt.Sprintf(`[for s in coll : {for k, v in [s, s] : %s => %s%s%s}]`, keyE, val, group, cond)
	case 1:
		nested = true
		src = fmt.Sprintf(`[for i, s in coll : {for k, v in [s, uk, s] : %s => i%s}]`, r.Pick([]string{`v`, `s`, `cat(s, us)`, `uk`}), cond)
	}

	e, pd := hclsyntax.ParseExpression([]byte(src), "", hcl.InitialPos)
	if pd.HasErrors() {
		res.Fail(lib.Failure{Kind: "corr", Key: "FRAGS:unparseable", Desc: pd.Error(), Input: src})
		return
	}
	input := src + "\n-- scope: " + c01.EnvSexp(vars)
	var diags hcl.Diagnostics
	ok := cx.Guard("eval", input, func() {
		_, diags = e.Value(&hcl.EvalContext{Variables: vars, Functions: c01.Funcs()})
	})
	if !ok {
		return
	}
	// the real side: per "Duplicate object key" diagnostic, the key named in the Detail ("" = none)
	var impl []string
	for _, d := range diags {
		if d.Summary != "Duplicate object key" {
			continue
		}
		switch m := dupDetailRe.FindStringSubmatch(d.Detail); {
		case m != nil:
			k, err := strconv.Unquote(m[1])
			if err != nil {
				k = m[1]
			}
			impl = append(impl, "key:"+k)
		case strings.HasPrefix(d.Detail, dupGeneric):
			impl = append(impl, "none")
		default:
			impl = append(impl, "other:"+d.Detail)
		}
	}

	sx, okx := c01.ExprSexp(e)
	if !okx {
		res.Count("corr-frags:model-unsupported-input")
		return
	}
	ans := cx.Ask("EVAL " + sx + " " + c01.EnvSexp(vars))
	if strings.HasPrefix(ans, "- unsupported") {
		res.Count("corr-frags:model-unsupported")
		return
	}
	var model []string
	var taintedKeys []string
	fclean := ""
	if i := strings.LastIndex(ans, " diags="); i >= 0 {
		fields := strings.Fields(ans[i+1:])
		for _, f := range fields {
			if strings.HasPrefix(f, "fclean=") {
				fclean = strings.TrimPrefix(f, "fclean=")
			}
		}
		for _, ent := range strings.Split(strings.TrimPrefix(fields[0], "diags="), ";") {
			sf := strings.SplitN(ent, ":", 2)
			if len(sf) != 2 || unhex(sf[0]) != "Duplicate object key" {
				continue
			}
			if sf[1] == "-" {
				model = append(model, "none")
				continue
			}
			for _, f := range strings.Split(sf[1], ",") {
				k := unhex(strings.TrimSuffix(f, "*"))
				model = append(model, "key:"+k)
				if strings.HasSuffix(f, "*") {
					taintedKeys = append(taintedKeys, k)
				}
			}
		}
	} else if diags.HasErrors() || !strings.HasSuffix(ans, " ok") {
		res.Fail(lib.Failure{Kind: "corr", Key: "FRAGS:bad-answer", Desc: "model answered " + lib.Trunc(ans, 300), Input: input})
		return
	}
	res.CorrChecked++
	echoed := 0
	for _, s := range impl {
		if strings.HasPrefix(s, "key:") {
			echoed++
		}
	}
	switch {
	case len(impl) == 0:
		res.Count("corr-frags:no-duplicate")
	case echoed == 0:
		res.Count("corr-frags:all-suppressed")
	case echoed == len(impl):
		res.Count("corr-frags:all-echoed")
	default:
		res.Count("corr-frags:mixed")
	}
	if nested {
		res.Count("corr-frags:nested")
	}
	mi, ii := strings.Join(model, " "), strings.Join(impl, " ")
	if mi != ii {
		res.Fail(lib.Failure{Kind: "corr", Key: "FRAGS", Desc: "the keys named by the real \"Duplicate object key\" diagnostics differ from the fragments of the model's diagnostics", Input: input, Model: mi + "\n" + ans, Impl: ii})
		return
	}
	// the ghost taint against the scope
	secretOnly := markedOnlyStrings(vars, src)
	isTainted := map[string]bool{}
	for _, k := range taintedKeys {
		isTainted[k] = true
	}
	for _, s := range impl {
		if !strings.HasPrefix(s, "key:") {
			continue
		}
		k := strings.TrimPrefix(s, "key:")
		fromSecret := false
		for _, t := range secretOnly {
			if strings.Contains(k, t) {
				fromSecret = true
			}
		}
		switch {
		case fromSecret && !isTainted[k]:
			res.Fail(lib.Failure{Kind: "corr", Key: "FRAGS:secret-not-tainted", Desc: "an echoed key contains a string that occurs in the scope only at or below marks, but the model's fragment is not ghost-tainted (the taint would under-approximate)", Input: input, Model: ans, Impl: ii})
		case fromSecret:
			res.Count("corr-frags:echoed-secret-is-tainted")
			if fclean == "true" {
				// taint_partial against the real code: the side condition holds, and a secret was echoed
				res.Fail(lib.Failure{Kind: "corr", Key: "FRAGS:THEOREM-VS-IMPL", Desc: "the real diagnostic echoes a string that occurs in the scope only at or below marks although the expression passes the side condition of taint_partial", Input: input, Model: ans, Impl: ii})
			}
		case isTainted[k]:
			res.Count("corr-frags:taint-over-approximated")
		default:
			res.Count("corr-frags:echoed-public-untainted")
		}
	}
	if len(impl) > 0 {
		if fclean != "true" && fclean != "false" {
			res.Fail(lib.Failure{Kind: "corr", Key: "FRAGS:bad-answer", Desc: "no fclean field: " + lib.Trunc(ans, 300), Input: input})
			return
		}
		res.Count("corr-frags:fclean-" + fclean)
		if nested {
			res.Count("corr-frags:nested:fclean-" + fclean)
		} else if fclean == "false" {
			res.Fail(lib.Failure{Kind: "corr", Key: "FRAGS:side-condition", Desc: "an object for-expression outside any loop body does not pass fclean", Input: input, Model: ans})
		}
	}
	if len(taintedKeys) > 0 && fclean == "true" {
		// the theorem (Props/C19.lean, taint_partial) on the executable model
		res.Fail(lib.Failure{Kind: "corr", Key: "FRAGS:MODEL-TAINT", Desc: "the executable model reports a tainted fragment for an expression that passes the side condition of taint_partial (the theorem would be false)", Input: input, Model: ans})
	}
}

func unhex(h string) string {
	b, err := hex.DecodeString(h)
	if err != nil {
		return "?" + h
	}
	return string(b)
}

// markedOnlyStrings: the strings (of 8 or more bytes) that occur in the scope at or below a marked node and
// nowhere else in the scope (values and keys) nor in the source text.
func markedOnlyStrings(vars map[string]cty.Value, src string) []string {
	marked, plain := map[string]bool{}, map[string]bool{}
	var walk func(v cty.Value, under bool)
	walk = func(v cty.Value, under bool) {
		under = under || v.IsMarked()
		v, _ = v.Unmark()
		if !v.IsKnown() || v.IsNull() {
			return
		}
		ty := v.Type()
		switch {
		case ty == cty.String:
			if under {
				marked[v.AsString()] = true
			} else {
				plain[v.AsString()] = true
			}
		case ty.IsCollectionType() || ty.IsTupleType() || ty.IsObjectType():
			for it := v.ElementIterator(); it.Next(); {
				k, ev := it.Element()
				walk(k, under)
				walk(ev, under)
			}
		}
	}
	for _, v := range vars {
		walk(v, false)
	}
	var out []string
	for s := range marked {
		if len(s) < 8 || strings.Contains(src, s) {
			continue
		}
		clean := true
		for p := range plain {
			if strings.Contains(p, s) {
				clean = false
			}
		}
		if clean {
			out = append(out, s)
		}
	}
	return out
}
