// Package c19 checks that diagnostics (and their text renderings) never reveal the content of marked values.
package c19

import (
	"bytes"
	"encoding/json"
	"fmt"
	"regexp"
	"runtime/debug"
	"sort"
	"strings"

	"github.com/hashicorp/hcl/v2"
	"github.com/hashicorp/hcl/v2/ext/dynblock"
	"github.com/hashicorp/hcl/v2/hcldec"
	hcljson "github.com/hashicorp/hcl/v2/json"
	"github.com/zclconf/go-cty/cty"

	"github.com/hashicorp/hcl/v2/hclsyntax"
	"hx/lib"
	"hx/props/evalgen"
)

func init() { lib.Register("C19", run) }

// Mark is the mark on every value that holds a secret.
const Mark = "sensitive"

// ---------------------------------------------------------------------------
// secrets and the scope that holds them

const alnum = "ABCDEFGHJKLMNPQRSTUVWXYZabcdefghijkmnopqrstuvwxyz23456789"

type secrets struct {
	texts []string // every text that must not appear in a diagnostic
	r     *lib.Rand
}

func (s *secrets) str() string {
	b := make([]byte, 16)
	for i := range b {
		b[i] = alnum[s.r.Intn(len(alnum))]
	}
	t := "S3CR3T-" + string(b)
	s.texts = append(s.texts, t)
	return t
}

// digits returns a fresh 9-digit integer text that is registered as secret.
func (s *secrets) digits() string {
	t := fmt.Sprintf("%d", 100000000+s.r.Intn(899999999))
	s.texts = append(s.texts, t)
	return t
}

// num is a secret number: 9 secret digits and a dyadic fraction.
func (s *secrets) num() cty.Value {
	d := s.digits()
	frac := []string{"", ".5", ".125", ".25"}[s.r.Intn(4)]
	v, err := cty.ParseNumberVal(d + frac)
	if err != nil {
		panic(err)
	}
	return v
}

func (s *secrets) sv() cty.Value { return cty.StringVal(s.str()) }

// secretScope adds the variables that hold secrets to a benign scope. Secrets occur only inside marked
// values: marked at top level, marked element by element, as map keys and object attribute names of a
// collection marked at top level, as numbers, and as numeric-looking strings (converted on use).
func secretScope(r *lib.Rand, base evalgen.Scope) (evalgen.Scope, *secrets, []string) {
	sc := &secrets{r: r}
	s := base.Clone()
	m := func(v cty.Value) cty.Value { return v.Mark(Mark) }
	s["sec_s"] = m(sc.sv())
	s["sec_n"] = m(sc.num())
	s["sec_ns"] = m(cty.StringVal(sc.digits()))
	s["sec_null"] = m(cty.NullVal(cty.String))
	s["sec_list"] = m(cty.ListVal([]cty.Value{sc.sv(), sc.sv(), sc.sv()}))
	s["sec_list_el"] = cty.ListVal([]cty.Value{m(sc.sv()), m(sc.sv())})
	dup := sc.sv()
	s["sec_dup"] = m(cty.ListVal([]cty.Value{dup, sc.sv(), dup}))
	dup2 := sc.sv()
	s["sec_dup_both"] = m(cty.ListVal([]cty.Value{m(dup2), m(sc.sv()), m(dup2)})) // marked as a whole AND element by element
	s["sec_nlist"] = m(cty.ListVal([]cty.Value{sc.num(), sc.num()}))
	s["sec_map"] = m(cty.MapVal(map[string]cty.Value{sc.str(): sc.sv(), sc.str(): sc.sv()}))
	s["sec_map_el"] = cty.MapVal(map[string]cty.Value{"a": m(sc.sv()), "b": m(sc.sv())})
	s["sec_obj"] = m(cty.ObjectVal(map[string]cty.Value{sc.str(): sc.sv(), sc.str(): sc.num()}))
	s["sec_nested"] = cty.ObjectVal(map[string]cty.Value{
		"inner": cty.ObjectVal(map[string]cty.Value{"token": m(sc.sv()), "id": m(sc.num())}),
		"items": cty.ListVal([]cty.Value{m(sc.sv()), m(sc.sv())}),
	})
	// collections with exactly one element whose key / attribute name is the secret (descriptions of a value's
	// shape name the attribute of a one-attribute object)
	s["sec_obj1"] = m(cty.ObjectVal(map[string]cty.Value{sc.str(): cty.NumberIntVal(1)}))
	s["sec_map1"] = m(cty.MapVal(map[string]cty.Value{sc.str(): cty.True}))
	s["sec_tuple1"] = m(cty.TupleVal([]cty.Value{sc.sv()}))
	// a map with ordinary key names, marked as a whole only (attribute-style access by name)
	s["sec_map2"] = m(cty.MapVal(map[string]cty.Value{"token": sc.sv(), "id": sc.sv()}))
	s["sec_set"] = m(cty.SetVal([]cty.Value{sc.sv(), sc.sv()}))
	s["sec_tuple"] = m(cty.TupleVal([]cty.Value{sc.sv(), sc.num(), cty.True}))
	s["sec_objlist"] = m(cty.ListVal([]cty.Value{
		cty.ObjectVal(map[string]cty.Value{"name": sc.sv(), "n": sc.num()}),
		cty.ObjectVal(map[string]cty.Value{"name": sc.sv(), "n": sc.num()}),
	}))
	var names []string
	for n := range s {
		if strings.HasPrefix(n, "sec_") {
			names = append(names, n)
		}
	}
	sort.Strings(names)
	// which secrets carry their mark on the very value that holds them (element by element), rather than
	// only on an enclosing collection: the recorded root cause of unmarked iteration variables does not
	// apply to them — an iteration over such a collection hands out elements that are marked themselves
	leafMarked = map[string]bool{}
	for _, n := range names {
		_ = cty.Walk(s[n], func(_ cty.Path, v cty.Value) (bool, error) {
			if v.IsMarked() {
				u, _ := v.Unmark()
				if u.IsKnown() && !u.IsNull() {
					var text string
					switch u.Type() {
					case cty.String:
						text = u.AsString()
					case cty.Number:
						text = u.AsBigFloat().Text('f', -1)
					}
					for _, t := range sc.texts {
						if text != "" && strings.Contains(text, t) {
							leafMarked[t] = true
						}
					}
				}
				return false, nil
			}
			return true, nil
		})
	}
	return s, sc, names
}

// leafMarked: see secretScope (the checks run one scope at a time).
var leafMarked = map[string]bool{}

// ---------------------------------------------------------------------------
// the leak check

var slugRe = regexp.MustCompile(`[^a-z0-9]+`)
var blockSummaryRe = regexp.MustCompile(`^(Duplicate|Missing|Insufficient|Too many|Unconsistent argument types in|Missing key for) \S+( blocks?)?`)

func slug(s string) string {
	return strings.Trim(slugRe.ReplaceAllString(strings.ToLower(s), "-"), "-")
}

// site names the diagnostic site from its summary (block type names are abstracted away).
func site(summary string) string {
	switch summary {
	case "Duplicate object key":
		return "for-duplicate-object-key"
	case "Duplicate object attribute":
		return "json-duplicate-object-attribute"
	}
	if m := blockSummaryRe.FindStringSubmatch(summary); m != nil {
		return "hcldec-" + slug(m[1]) + "-block"
	}
	s := slug(summary)
	if len(s) > 50 {
		s = s[:50]
	}
	return s
}

func leaked(text string, sc []string) string {
	for _, t := range sc {
		if strings.Contains(text, t) {
			return t
		}
	}
	return ""
}

var withLineRe = regexp.MustCompile(`(?m)^(?:with|    ) ([^\s.\[]+)[^\n]* (?:as|set to) [^\n]*$`)

// checkDiags inspects every diagnostic and its renderings. It returns the number of diagnostics checked.
func checkDiags(cx *lib.Ctx, diags hcl.Diagnostics, files map[string]*hcl.File, sc []string, input func() string, origin string) int {
	res := cx.Res
	fail := func(f lib.Failure) {
		res.Count("found-by:" + origin + ":" + f.Key)
		res.Fail(f)
	}
	for _, d := range diags {
		res.Count("diag:" + site(d.Summary))
		if t := leaked(d.Summary, sc); t != "" {
			fail(lib.Failure{Kind: "oracle", Key: "leak:" + site(strings.ReplaceAll(d.Summary, t, "")) + "-summary", Desc: "the diagnostic summary contains the content of a marked value", Input: input(), Impl: d.Summary + "\n" + d.Detail})
			continue
		}
		if t := leaked(d.Detail, sc); t != "" {
			key := "leak:" + site(d.Summary) + "-detail"
			if st := site(d.Summary); st == "incorrect-attribute-value-type" || st == "inconsistent-conditional-result-types" {
				// type-mismatch messages: which part of the message holds the secret tells the recorded root
				// cause (an attribute name of a marked object in a type description) from anything else
				key += ":" + messageShape(d.Detail, sc)
			}
			if site(d.Summary) == "error-in-function-call" {
				// a function declared in the configuration (ext/userfunc) failed inside its result expression, which
				// is evaluated with arguments that cty has unmarked: which inner message carries the content
				shape := "other"
				if strings.Contains(d.Detail, "Duplicate object key; Two different items produced the key") {
					shape = "user-function-body:duplicate-object-key"
				}
				key += ":" + shape
			}
			if site(d.Summary) == "hcldec-duplicate-block" && leafMarked[t] {
				// the recorded finding is about labels taken from the elements of a collection marked only at the
				// top; an element that carries the mark itself must never become a label
				key += ":label-from-an-element-marked-itself"
			}
			if _, outer := markedIteration(d, files, t); scopeHoldsUnmarked(d.EvalContext, t) && outer {
				// the secret reached this evaluation through a child-scope variable (for / dynamic-block
				// iterator) that was bound without the marks of its collection: a different root cause
				key += ":via-unmarked-scope-variable"
			}
			fail(lib.Failure{Kind: "oracle", Key: key, Desc: "the diagnostic detail contains the content of a marked value", Input: input(), Impl: d.Summary + "\n" + d.Detail})
			continue
		}
		for _, cfg := range []struct {
			width uint
			color bool
		}{{0, false}, {78, false}, {0, true}, {78, true}} {
			var buf bytes.Buffer
			wr := hcl.NewDiagnosticTextWriter(&buf, files, cfg.width, cfg.color)
			var werr error
			ok := cx.Guard("diagnostic-text-writer", input(), func() { werr = wr.WriteDiagnostic(d) })
			if !ok || werr != nil {
				break
			}
			res.Count("renderings")
			out := buf.String()
			if cfg.width != 0 {
				// wrapping may split a secret over two lines
				out = strings.ReplaceAll(out, "\n", " ")
			}
			t := leaked(out, sc)
			if t == "" {
				continue
			}
			key := "leak:textwriter-other"
			for _, m := range withLineRe.FindAllStringSubmatch(buf.String(), -1) {
				if leaked(m[0], sc) == "" {
					continue
				}
				key = "leak:textwriter-with-root-variable"
				name := m[1]
				if ctx := d.EvalContext; ctx != nil && ctx.Parent() != nil {
					for c := ctx; c != nil && c.Parent() != nil; c = c.Parent() {
						if v, ok := c.Variables[name]; ok {
							key = "leak:textwriter-with-child-scope-variable"
							if own, outer := markedIteration(d, files, t); own || outer {
								// the recorded root cause: bound from a collection marked only at the top
								key = "leak:textwriter-with-for-scope-variable"
							}
							if ty := v.Type(); ty.IsObjectType() && ty.HasAttribute("key") && ty.HasAttribute("value") && len(ty.AttributeTypes()) == 2 {
								key = "leak:textwriter-with-dynblock-iterator:for_each-not-marked-as-a-whole"
								if _, outer := markedIteration(d, files, t); outer {
									key = "leak:textwriter-with-dynblock-iterator"
								}
							}
						}
					}
				}
				break
			}
			fail(lib.Failure{Kind: "oracle", Key: key, Desc: "the text rendering of a diagnostic (whose summary and detail are clean) contains the content of a marked value", Input: input(), Impl: buf.String()})
			break
		}
	}
	return len(diags)
}

type extra struct {
	Secrets []string `json:"secrets"`
}

// ---------------------------------------------------------------------------
// expressions

// families are erroneous expressions of every kind named by the property, over the secret variables.
var families = []string{
	// bad indexes: out of range, missing key, key of the wrong type, the key is the secret
	`sec_list[7]`, `sec_list[-1]`, `sec_list[0.5]`, `sec_list[sec_n]`, `sec_list[sec_s]`, `sec_list["x"]`, `sec_list[sec_nlist[0]]`,
	`sec_list_el[sec_n]`, `sec_list_el[sec_list_el[0]]`, `sec_nlist[sec_nlist[1]]`, `sec_tuple[5]`, `sec_tuple[sec_n]`, `sec_tuple[sec_s]`,
	`sec_map[sec_s]`, `sec_map["nokey"]`, `sec_map[sec_n]`, `sec_map[sec_list]`, `sec_map.nokey`, `sec_map_el[sec_s]`, `sec_map_el.c`,
	`sec_obj[sec_s]`, `sec_obj["nokey"]`, `sec_obj.nokey`, `sec_obj[sec_n]`, `sec_obj[0]`, `sec_nested.inner[sec_s]`, `sec_nested.inner.nokey`, `sec_nested.items[sec_n]`,
	`sec_set[0]`, `sec_set[sec_s]`, `sec_s[0]`, `sec_n["a"]`, `sec_s.attr`, `sec_n.attr`, `sec_list.attr`, `sec_objlist.name`, `sec_set.name`, `sec_list.0.x`,
	`ls[sec_n]`, `ms[sec_s]`, `ob[sec_s]`, `tp[sec_n]`, `ln[sec_ns]`, `{a = 1}[sec_s]`, `[1, 2][sec_n]`,
	// duplicate object keys in object for-expressions where the key is secret
	// strings joined by a template directive over a marked collection (one element, several elements) that then
	// reach a place where values are echoed: a duplicate key, a variable shown by the text writer
	`{for k in ["%{ for x in sec_tuple1 }${x}%{ endfor }", "%{ for x in sec_tuple1 }${x}%{ endfor }"] : k => 1}`,
	`{for k in ["%{ for x in sec_list }${x}%{ endfor }", "%{ for x in sec_list }${x}%{ endfor }"] : k => 1}`,
	`{for k in ["%{ for x in sec_map1 }${x}%{ endfor }", "%{ for k2, x in sec_map1 }${k2}%{ endfor }"] : "%{ for x in sec_tuple1 }${x}%{ endfor }" => k}`,
	`[for o in ["%{ for x in sec_tuple1 }${x}%{ endfor }"] : o + 1]`, `[for o in ["%{ for x in sec_list }${x}%{ endfor }"] : o.zz]`,
	`[for o in ["%{ for x in sec_tuple1 if x != "" }${x}%{ endfor }"] : o[0]]`,
	`sec_map2.token + 1`, `sec_map2.token[0]`, `sec_map2.id.x`, `sec_map2["token"] + 1`, `[for o in [sec_map2.token] : o.zz]`, `sec_map2.token && true`,
	`{for v in sec_dup : v => 1}`, `{for k, v in sec_dup : v => k}`, `{for v in sec_list : "same" => v}`, `{for k, v in sec_map : "same" => k}`,
	`{for k, v in sec_map : sec_s => v}`, `{for v in sec_list_el : sec_s => v}`, `{for v in [1, 2] : sec_s => v}`, `{for v in [1, 2] : sec_ns => v}`, `{for v in [1, 2] : sec_n => v}`,
	`{for v in sec_nlist : "${sec_n}" => v}`, `{for o in sec_objlist : sec_list[0] => o.name}`, `{for k, v in sec_obj : "x" => k}`,
	// invalid keys
	`{for v in sec_list : sec_null => v}`, `{for v in sec_list : sec_list => v}`, `{for v in sec_list : v.x => v}`, `{(sec_null) = 1}`, `{(sec_list) = 1}`, `{(sec_obj) = 1}`, `{sec_s.x = 1}`,
	// type mismatches in operators
	`sec_s + 1`, `1 - sec_s`, `sec_s * sec_s`, `sec_list + 1`, `sec_obj / 2`, `sec_s % 2`, `-sec_s`, `!sec_s`, `!sec_n`, `-sec_list`, `sec_s && true`, `false || sec_n`, `sec_s < 1`, `sec_n >= sec_s`, `sec_list > 1`,
	`sec_null + 1`, `-sec_null`, `!sec_null`, `sec_null && true`, `sec_n / 0 % 2`, `sec_list_el[0] + 1`, `sec_nested.inner.token * 2`,
	// conditions
	`sec_s ? 1 : 2`, `sec_n ? 1 : 2`, `sec_list ? 1 : 2`, `sec_null ? 1 : 2`, `sec_list_el[0] ? 1 : 2`, `true ? sec_obj : sec_list`, `false ? sec_obj : {other = 1}`, `true ? sec_obj : {other = [1]}`,
	`b1 ? sec_tuple : sec_list`, `true ? sec_objlist : [{name = 1, extra = 2}]`, `true ? sec_obj : sec_nested`, `true ? [sec_obj] : [sec_nested]`, `true ? {a = sec_obj} : {a = sec_list}`,
	// templates
	`"${sec_list}"`, `"x${sec_obj}"`, `"x${sec_map}y"`, `"${sec_null}"`, `"x${sec_null}"`, `"x${sec_set}"`, `"x${sec_tuple}"`, `"x${sec_nested}"`, `"x${sec_nested.items}"`,
	`"%{ if sec_s }a%{ endif }"`, `"%{ if sec_n }a%{ endif }"`, `"%{ if sec_null }a%{ endif }"`, `"%{ if sec_list }a%{ endif }"`,
	`"%{ for v in sec_s }${v}%{ endfor }"`, `"%{ for v in sec_n }${v}%{ endfor }"`, `"%{ for v in sec_null }${v}%{ endfor }"`, `"%{ for v in sec_list }${v.x}%{ endfor }"`,
	`"%{ for k, v in sec_map }${v[0]}%{ endfor }"`, `"%{ for v in sec_objlist }${v}%{ endfor }"`, `"%{ for v in sec_list }${v + 1}%{ endfor }"`, `"%{ for v in sec_list_el }${v.x}%{ endfor }"`, `"%{ for v in sec_nlist }${v.x}%{ endfor }"`,
	`"${sec_list[9]}"`, `"a${sec_s + 1}"`, `"a${upper(sec_list)}"`,
	// function calls
	`upper(sec_list)`, `upper(sec_n, sec_s)`, `upper()`, `upper(sec_null)`, `min(sec_s)`, `min(sec_list...)`, `sum(sec_list...)`, `sum(sec_s...)`, `sum(sec_obj...)`, `sum(sec_null...)`, `sum(sec_map...)`,
	`length(sec_n)`, `length(sec_null)`, `join(sec_list, sec_s)`, `join(",", sec_nlist, sec_obj)`, `join(",", [sec_null])`, `concat(sec_list, sec_n)`, `concat(sec_s)`, `tolist(sec_s)`, `toset(sec_obj)`, `keys(sec_list)`, `keys(sec_s)`,
	// arguments converted to a typed collection parameter: the conversion error names a path into the argument
	`mapnum(sec_map)`, `mapnum(sec_map_el)`, `mapnum({ (sec_s) = "x" })`, `mapnum({ ok = 1, (sec_s) = "x" })`, `listnum(sec_list)`, `listnum([1, sec_s])`, `objab(sec_obj)`, `objab({ a = sec_s, b = "x" })`,
	`nested({ outer = sec_map })`, `nested({ (sec_s) = { inner = "x" } })`, `setnum(sec_set)`, `mapnum(sec_map1)`, `mapnum(sec_obj1)`, `mapnum(sec_map2)`, `1 + mapnum(sec_map)`, `[for k in [1] : mapnum(sec_map)]`,
	`coalesce(sec_null, sec_null)`, `coalesce(sec_list, sec_n)`, `nosuchfunction(sec_s)`, `ns::nosuch(sec_s)`, `other::id(sec_s)`, `min(sec_ns, sec_s)`, `sum(sec_ns, sec_s)`, `sum(sec_list_el...)`,
	// traversal and attribute errors
	`sec_typo`, `sec_typo.x`, `sec_s.x.y`, `sec_null.x`, `sec_null[0]`, `sec_list[0].x`, `sec_objlist[0].nokey`, `sec_objlist[9].name`, `sec_nested.inner.token.x`, `sec_nested.items[0].x`, `sec_tuple[0].x`, `sec_tuple.0.x`,
	// splat and for over non-iterable / null / with failing bodies
	`sec_s[*].x`, `sec_n.*.x`, `sec_list[*].x`, `sec_list.*.x`, `sec_objlist[*].nokey`, `sec_objlist.*.nokey`, `sec_null[*].x`, `sec_list_el[*].x`, `sec_nested.items[*].x`, `sec_set[*].x`, `sec_tuple[*].x`, `sec_obj[*].nokey`,
	`sec_objlist[*].name[0]`, `sec_objlist[*].n.x`, `sec_map[*].x`,
	`[for v in sec_s : v]`, `[for v in sec_n : v]`, `[for v in sec_null : v]`, `[for v in sec_list : v.x]`, `[for v in sec_list : v + 1]`, `[for v in sec_list : upper(v, v)]`, `[for v in sec_list : v[0]]`,
	`[for k, v in sec_map : v.x]`, `[for k, v in sec_map : k.x]`, `[for k, v in sec_map : k + 1]`, `[for k, v in sec_obj : k.x]`, `[for k, v in sec_obj : v.x]`, `[for v in sec_list_el : v.x]`, `[for v in sec_nlist : v.x]`, `[for v in sec_nlist : v[0]]`,
	`[for v in sec_set : v.x]`, `[for v in sec_tuple : v.x]`, `[for o in sec_objlist : o.nokey]`, `[for o in sec_objlist : o.name.x]`, `[for o in sec_objlist : o.n + o.name]`, `[for v in sec_nested.items : v.x]`,
	`[for v in sec_list : v if v]`, `[for v in sec_list : v if sec_s]`, `[for v in sec_list : v if sec_null]`, `[for v in sec_nlist : v if v]`, `{for v in sec_list : v => v if v}`, `{for k, v in sec_map : k => v.x}`,
	`[for v in sec_list : [for w in v : w]]`, `[for v in sec_list : "${v.x}"]`, `[for i, v in sec_list : sec_list[v]]`, `[for i, v in sec_nlist : sec_list[v]]`, `[for k, v in sec_map : sec_map[v]]`, `[for k, v in sec_map : sec_obj[k]]`,
	`{for v in sec_list : v => v...}[sec_s]`, `[for v in sec_list : v][sec_n]`,
}

func exprFiles(src string) map[string]*hcl.File {
	return map[string]*hcl.File{evalgen.Filename: {Bytes: []byte(src)}}
}

func checkExprSource(cx *lib.Ctx, src string, node *lib.Node, s evalgen.Scope, sc []string, origin string) {
	res := cx.Res
	if leaked(src, sc) != "" {
		res.Count("source-contains-secret-skipped")
		return
	}
	e, pd := evalgen.Parse(src)
	if pd.HasErrors() {
		res.Count(origin + ":parse-error")
		return
	}
	c := &evalgen.Case{Scope: s, Src: src, Node: node, Expr: e}
	input := func() string { return c.Encode("C19", "expr", extra{Secrets: sc}) }
	var diags hcl.Diagnostics
	ok := cx.Guard("eval", input(), func() { _, diags = e.Value(evalgen.Ctx(s)) })
	if !ok {
		return
	}
	if len(diags) == 0 {
		res.Count(origin + ":no-diagnostics")
		res.Case(src, false)
		return
	}
	res.Count(origin + ":with-diagnostics")
	checkDiags(cx, diags, exprFiles(src), sc, input, origin)
	res.Case(src, true)
}

func checkJSONSource(cx *lib.Ctx, src string, s evalgen.Scope, sc []string, origin string) {
	res := cx.Res
	e, pd := hcljson.ParseExpression([]byte(src), "case.json")
	if pd.HasErrors() || leaked(src, sc) != "" {
		return
	}
	c := &evalgen.Case{Scope: s, Src: src}
	input := func() string { return c.Encode("C19", "json", extra{Secrets: sc}) }
	var diags hcl.Diagnostics
	ok := cx.Guard("json-eval", input(), func() { _, diags = e.Value(evalgen.Ctx(s)) })
	if !ok || len(diags) == 0 {
		res.Case("json|"+src, false)
		return
	}
	res.Count("json:with-diagnostics")
	checkDiags(cx, diags, map[string]*hcl.File{"case.json": {Bytes: []byte(src)}}, sc, input, origin+"-json")
	res.Case("json|"+src, true)
}

// jsonFamilies: JSON-syntax expressions whose keys and strings are templates over the secrets.
var jsonFamilies = []string{
	`{"${sec_s}": 1, "${sec_s}": 2}`, `{"a": 1, "a": 2}`, `{"${sec_list}": 1}`, `{"${sec_null}": 1}`, `{"k": "${sec_list[9]}"}`, `["${sec_s + 1}", "${sec_map[sec_s]}"]`,
	`{"${sec_list_el[0]}": 1, "${sec_list_el[0]}": 2}`, `"${sec_obj.nokey}"`, `{"${sec_n}": 1, "${sec_n}": 2}`,
}

// ---------------------------------------------------------------------------
// bodies

func checkBodyCase(cx *lib.Ctx, b *evalgen.BodyCase, sc []string, origin string) {
	res := cx.Res
	if leaked(b.Src, sc) != "" {
		res.Count("source-contains-secret-skipped")
		return
	}
	input := func() string { return b.Encode("C19", "body", extra{Secrets: sc}) }
	var diags hcl.Diagnostics
	ok := cx.Guard("decode", input(), func() {
		ctx := evalgen.Ctx(b.Scope)
		_, diags = hcldec.Decode(dynblock.Expand(b.Body, ctx), evalgen.BuildSpec(b.Items), ctx)
	})
	if !ok {
		return
	}
	if len(diags) == 0 {
		res.Count("body:no-diagnostics")
		res.Case("body|"+b.Src, false)
		return
	}
	res.Count("body:with-diagnostics")
	checkDiags(cx, diags, b.Files(), sc, input, origin+"-body")
	res.Case("body|"+b.Src, true)
}

// bodyFamilies are hand-written bodies (source, spec) for the dynblock / hcldec error paths named by the
// property: marked for_each, labels from marked values, attribute conversions.
var bodyFamilies = []struct {
	src   string
	items []evalgen.SpecItem
}{
	{"dynamic \"svc\" {\n  for_each = sec_dup\n  labels = [svc.value]\n  content {\n    a = 1\n  }\n}\n", mapSpec("blockmap")},
	{"dynamic \"svc\" {\n  for_each = sec_dup\n  labels = [svc.value]\n  content {\n    a = 1\n  }\n}\n", mapSpec("blockobject")},
	{"dynamic \"svc\" {\n  for_each = sec_list\n  labels = [sec_s]\n  content {\n    a = 1\n  }\n}\n", mapSpec("blockmap")},
	{"dynamic \"svc\" {\n  for_each = sec_list_el\n  labels = [svc.value]\n  content {\n    a = 1\n  }\n}\n", mapSpec("blockmap")},
	{"dynamic \"svc\" {\n  for_each = sec_list\n  labels = [svc.value.x]\n  content {\n    a = 1\n  }\n}\n", mapSpec("blockmap")},
	{"dynamic \"svc\" {\n  for_each = sec_list\n  labels = [sec_null]\n  content {\n    a = 1\n  }\n}\n", mapSpec("blockmap")},
	{"dynamic \"svc\" {\n  for_each = sec_list\n  labels = [sec_list]\n  content {\n    a = 1\n  }\n}\n", mapSpec("blockmap")},
	{"dynamic \"svc\" {\n  for_each = sec_map\n  labels = [svc.key]\n  content {\n    a = svc.value.x\n  }\n}\n", mapSpec("blockmap")},
	{"dynamic \"svc\" {\n  for_each = sec_map\n  labels = [svc.key]\n  content {\n    a = svc.key\n  }\n}\n", mapSpec("blockmap")},
	{"dynamic \"svc\" {\n  for_each = sec_s\n  labels = [\"x\"]\n  content {\n    a = 1\n  }\n}\n", mapSpec("blockmap")},
	{"dynamic \"svc\" {\n  for_each = sec_null\n  labels = [\"x\"]\n  content {\n    a = 1\n  }\n}\n", mapSpec("blockmap")},
	{"dynamic \"svc\" {\n  for_each = sec_n\n  labels = [\"x\"]\n  content {\n    a = 1\n  }\n}\n", mapSpec("blockmap")},
	{"dynamic \"svc\" {\n  for_each = sec_list\n  iterator = it\n  labels = [\"l\"]\n  content {\n    a = it.value\n  }\n}\n", mapSpec("blockmap")},
	{"dynamic \"svc\" {\n  for_each = sec_list\n  iterator = it\n  labels = [it.value]\n  content {\n    a = it.value + 1\n  }\n}\n", mapSpec("blockmap")},
	// collections whose elements are marked one by one (the collection itself is not): the iterator hands out the
	// marked elements, in labels and in content
	{"dynamic \"svc\" {\n  for_each = sec_list_el\n  labels = [\"l${svc.key}\"]\n  content {\n    a = svc.value + 1\n  }\n}\n", mapSpec("blockmap")},
	{"dynamic \"svc\" {\n  for_each = sec_map_el\n  labels = [svc.key]\n  content {\n    a = svc.value.x\n  }\n}\n", mapSpec("blockmap")},
	{"dynamic \"svc\" {\n  for_each = sec_nested.items\n  iterator = it\n  labels = [\"l${it.key}\"]\n  content {\n    a = it.value[0]\n  }\n}\n", mapSpec("blockmap")},
	{"dynamic \"svc\" {\n  for_each = sec_list_el\n  labels = [svc.value]\n  content {\n    a = 1\n  }\n}\ndynamic \"svc\" {\n  for_each = sec_list_el\n  labels = [svc.value]\n  content {\n    a = 2\n  }\n}\n", mapSpec("blockmap")},
	{"dynamic \"svc\" {\n  for_each = sec_map_el\n  labels = [svc.value]\n  content {\n    a = 1\n  }\n}\ndynamic \"svc\" {\n  for_each = sec_map_el\n  labels = [svc.value]\n  content {\n    a = 2\n  }\n}\n", mapSpec("blockobject")},
	{"dynamic \"svc\" {\n  for_each = sec_dup_both\n  labels = [svc.value]\n  content {\n    a = 1\n  }\n}\n", mapSpec("blockmap")},
	{"dynamic \"svc\" {\n  for_each = sec_dup_both\n  labels = [svc.value]\n  content {\n    a = 1\n  }\n}\n", mapSpec("blockobject")},
	{"dynamic \"svc\" {\n  for_each = sec_dup_both\n  iterator = it\n  labels = [\"x-${it.value}\"]\n  content {\n    a = it.value.z\n  }\n}\n", mapSpec("blockmap")},
	{"dynamic \"svc\" {\n  for_each = [sec_s, sec_s]\n  labels = [svc.value]\n  content {\n    a = svc.value * 2\n  }\n}\n", mapSpec("blockmap")},
	{"svc \"x\" {\n  a = sec_s\n}\nsvc \"x\" {\n  a = sec_n\n}\n", mapSpec("blockmap")},
	{"a = sec_s\n", []evalgen.SpecItem{{Kind: "attr", Name: "a", Type: rawType(cty.Number)}}},
	{"a = sec_list\n", []evalgen.SpecItem{{Kind: "attr", Name: "a", Type: rawType(cty.Number)}}},
	{"a = sec_obj\n", []evalgen.SpecItem{{Kind: "attr", Name: "a", Type: rawType(cty.Object(map[string]cty.Type{"x": cty.String}))}}},
	{"a = sec_map\n", []evalgen.SpecItem{{Kind: "attr", Name: "a", Type: rawType(cty.Map(cty.Number))}}},
	{"a = sec_obj\n", []evalgen.SpecItem{{Kind: "attr", Name: "a", Type: rawType(cty.Map(cty.Bool))}}},
	{"a = sec_list\n", []evalgen.SpecItem{{Kind: "attr", Name: "a", Type: rawType(cty.List(cty.Number))}}},
	{"a = sec_tuple\n", []evalgen.SpecItem{{Kind: "attr", Name: "a", Type: rawType(cty.List(cty.Number))}}},
	{"a = sec_nested\n", []evalgen.SpecItem{{Kind: "attr", Name: "a", Type: rawType(cty.Object(map[string]cty.Type{"inner": cty.Number, "items": cty.List(cty.Bool)}))}}},
	{"a = sec_null\n", []evalgen.SpecItem{{Kind: "attr", Name: "a", Type: rawType(cty.Number), Required: true}}},
	// conversions that are possible for the type but fail on an element nested below an unmarked collection,
	// the element's key being the secret
	{"a = [{ (sec_s) = \"unlimited\" }]\n", []evalgen.SpecItem{{Kind: "attr", Name: "a", Type: rawType(cty.List(cty.Map(cty.Number)))}}},
	{"a = [{ (sec_s) = \"unlimited\" }, { x = 1 }]\n", []evalgen.SpecItem{{Kind: "attr", Name: "a", Type: rawType(cty.List(cty.Map(cty.Number)))}}},
	{"a = { outer = { (sec_s) = \"x\" } }\n", []evalgen.SpecItem{{Kind: "attr", Name: "a", Type: rawType(cty.Map(cty.Map(cty.Bool)))}}},
	{"a = [[sec_s], [\"x\"]]\n", []evalgen.SpecItem{{Kind: "attr", Name: "a", Type: rawType(cty.List(cty.List(cty.Number)))}}},
	{"vars {\n  k = sec_s\n  j = sec_list\n}\n", []evalgen.SpecItem{{Kind: "blockattrs", Name: "vars", Type: rawType(cty.Number)}}},
	{"vars {\n  k = sec_obj\n}\n", []evalgen.SpecItem{{Kind: "blockattrs", Name: "vars", Type: rawType(cty.String)}}},
}

func rawType(t cty.Type) json.RawMessage {
	b, _ := t.MarshalJSON()
	return b
}

func mapSpec(kind string) []evalgen.SpecItem {
	return []evalgen.SpecItem{{Kind: kind, Name: "svc", Labels: []string{"key"}, Nested: []evalgen.SpecItem{{Kind: "attr", Name: "a", Type: rawType(cty.Number)}}}}
}

// ---------------------------------------------------------------------------

func run(cx *lib.Ctx) {
	res := cx.Res
	debug.SetGCPercent(800)
	if cx.Replay != "" {
		replay(cx, lib.ReplayInput(cx.Replay))
		return
	}
	res.Rule = "canary sweep: scopes in which high-entropy strings (S3CR3T-<16 alnum>) and 9-digit numbers occur only inside marked values (top level, per element, as map keys and object attribute names, numeric strings); hand-written families of erroneous expressions / JSON expressions / bodies, plus type-directed random expressions and bodies (hcldec over dynblock) biased to the secret variables with a high share of ill-typed sub-expressions; every diagnostic's summary and detail and its four text renderings (width 0/78, colour on/off, with source snippets and variable summaries) are searched for every secret; non-trivial = at least one diagnostic was produced; distinct by source text"
	R := cx.R.Fork()
	rounds := cx.Scale(6, 60)
	for k := 0; k < rounds; k++ {
		r := R.Fork()
		s, sc, _ := secretScope(r, evalgen.NewScope(r))
		for _, f := range families {
			checkExprSource(cx, f, nil, s, sc.texts, "family")
		}
		for _, f := range jsonFamilies {
			checkJSONSource(cx, f, s, sc.texts, "family")
		}
		userFuncStream(cx, s, sc.texts)
		variantStream(cx, s, sc.texts)
		for _, bf := range bodyFamilies {
			b := &evalgen.BodyCase{Scope: s, Items: bf.items, Src: bf.src}
			bc, _, err := evalgen.DecodeBodyCase(b.Encode("C19", "body", nil))
			if err != nil {
				res.Count("body-family-parse-error")
				continue
			}
			checkBodyCase(cx, bc, sc.texts, "family")
		}
	}
	n := cx.Scale(5000, 100000)
	for i := 0; i < n; i++ {
		r := R.Fork()
		s, sc, names := secretScope(r, evalgen.NewScope(r))
		o := evalgen.Defaults()
		o.Scope, o.Prefer, o.Arb, o.Wild = s, names, 45, 8
		o.Forbidden = sc.texts
		c, ok := evalgen.NewCase(r, o)
		if !ok {
			res.Count("gen-parse-error")
			continue
		}
		if r.Chance(7, 10) {
			// plant secret variables in positions where they are mostly ill-typed
			for k := 1 + r.Intn(2); k > 0; k-- {
				plant(r, c.Node, names)
			}
			if !c.Render() {
				res.Count("gen-parse-error")
				continue
			}
			res.Count("generated:planted")
		}
		evalgen.CountStats(res, c.Node)
		if i < 3 {
			res.Sample(c.Src)
		}
		checkExprSource(cx, c.Src, c.Node, s, sc.texts, "generated")
		if r.Chance(1, 6) {
			if src, ok := evalgen.JSONSource(r, c.Node, 70); ok {
				checkJSONSource(cx, src, s, sc.texts, "generated")
			}
		}
	}
	nb := cx.Scale(1000, 20000)
	for i := 0; i < nb; i++ {
		r := R.Fork()
		s, sc, names := secretScope(r, evalgen.NewScope(r))
		o := evalgen.Defaults()
		o.Scope, o.Prefer, o.Arb, o.Wild = s, names, 15, 2
		o.Forbidden = sc.texts
		b, ok := evalgen.NewBodyCase(r, o, 55, 25)
		if !ok {
			res.Count("gen-body-parse-error")
			continue
		}
		if i < 2 {
			res.Sample(b.Src)
		}
		evalgen.BodyStats(res, b.Tree, 0)
		checkBodyCase(cx, b, sc.texts, "generated")
	}
	d := res.Distribution
	if t := d["generated:with-diagnostics"] + d["generated:no-diagnostics"]; t > 0 {
		res.Notes = append(res.Notes, fmt.Sprintf("generated expressions with diagnostics: %.1f%%", 100*float64(d["generated:with-diagnostics"])/float64(t)))
	}
	corrFrags(cx)
	corrTextW(cx)
}

// plant overwrites a random sub-expression with a reference to a secret variable.
func plant(r *lib.Rand, root *lib.Node, names []string) {
	var nodes []*lib.Node
	var collect func(n *lib.Node)
	collect = func(n *lib.Node) {
		for _, k := range evalgen.SubExprs(n) {
			if k.K != "ident" && k.K != "tlit" && k.K != "tmpl" {
				nodes = append(nodes, k)
			}
			collect(k)
		}
	}
	collect(root)
	if len(nodes) == 0 {
		return
	}
	n := nodes[r.Intn(len(nodes))]
	v := evalgen.V(names[r.Intn(len(names))])
	switch r.Intn(5) {
	case 0:
		v = evalgen.Index(v, evalgen.Num(fmt.Sprintf("%d", r.Intn(3))))
	case 1:
		v = evalgen.Attr(v, []string{"name", "inner", "items", "a", "x"}[r.Intn(5)])
	}
	*n = *v
}

func replay(cx *lib.Ctx, doc string) {
	var head struct {
		Mode  string `json:"mode"`
		Extra extra  `json:"extra"`
	}
	fail := func(err error) {
		cx.Res.Fail(lib.Failure{Kind: "oracle", Key: "replay-input", Desc: err.Error(), Input: doc})
	}
	if err := json.Unmarshal([]byte(doc), &head); err != nil {
		fail(err)
		return
	}
	switch head.Mode {
	case "body":
		b, _, err := evalgen.DecodeBodyCase(doc)
		if err != nil {
			fail(err)
			return
		}
		cx.Res.Sample(b.Src)
		checkBodyCase(cx, b, head.Extra.Secrets, "replay")
	case "json":
		var cj evalgen.CaseJSON
		if err := json.Unmarshal([]byte(doc), &cj); err != nil {
			fail(err)
			return
		}
		s, err := evalgen.DecodeScope(cj.Scope)
		if err != nil {
			fail(err)
			return
		}
		cx.Res.Sample(cj.Src)
		checkJSONSource(cx, cj.Src, s, head.Extra.Secrets, "replay")
	case "userfunc":
		var cj evalgen.CaseJSON
		if err := json.Unmarshal([]byte(doc), &cj); err != nil {
			fail(err)
			return
		}
		s, err := evalgen.DecodeScope(cj.Scope)
		if err != nil {
			fail(err)
			return
		}
		cx.Res.Sample(cj.Src)
		checkUserFunc(cx, cj.Src, s, head.Extra.Secrets, "replay")
	default:
		c, _, err := evalgen.DecodeCase(doc)
		if err != nil {
			fail(err)
			return
		}
		cx.Res.Sample(c.Src)
		checkExprSource(cx, c.Src, c.Node, c.Scope, head.Extra.Secrets, "replay")
	}
}

// ownCollectionMarked: the diagnostic comes from a for expression (its Context is the whole expression) whose
// own collection evaluates to a value marked at the top.  The iteration variables are then bound unmarked too,
// but the expression itself has the collection's marks at hand and is expected to withhold the key: a leak
// here is not the recorded root cause (an *enclosing* scope's unmarked binding).
func ownCollectionMarked(d *hcl.Diagnostic, files map[string]*hcl.File) bool {
	if d.Summary != "Duplicate object key" || d.Context == nil || d.EvalContext == nil || d.EvalContext.Parent() == nil {
		return false
	}
	f := files[d.Context.Filename]
	if f == nil || d.Context.End.Byte > len(f.Bytes) || d.Context.Start.Byte > d.Context.End.Byte {
		return false
	}
	e, diags := hclsyntax.ParseExpression(f.Bytes[d.Context.Start.Byte:d.Context.End.Byte], "", hcl.InitialPos)
	if diags.HasErrors() {
		return false
	}
	fe, ok := e.(*hclsyntax.ForExpr)
	if !ok {
		return false
	}
	v, _, p := evalgen.SafeValue(fe.CollExpr, d.EvalContext.Parent())
	return p == "" && v.IsMarked()
}

// markedIteration looks for the recorded root cause around a diagnostic: a for expression whose collection is
// marked at the top (its iteration variables are then bound without that mark).  own: the diagnostic is the
// duplicate-key error of such an expression itself; outer: such an expression encloses the place the
// diagnostic is about.  The enclosing for expressions are found in the parsed source by range; each
// collection is evaluated in the contexts above the diagnostic's own.
func markedIteration(d *hcl.Diagnostic, files map[string]*hcl.File, t string) (own, outer bool) {
	if d.Subject == nil || d.EvalContext == nil {
		return false, false
	}
	// a dynamic block's iterator (an object {key, value} in a child context) that holds the text unmarked: the
	// same root cause on the dynblock side (elements of a for_each collection marked only at the top)
	for c := d.EvalContext; c != nil && c.Parent() != nil; c = c.Parent() {
		for _, v := range c.Variables {
			if ty := v.Type(); ty.IsObjectType() && ty.HasAttribute("key") && ty.HasAttribute("value") && len(ty.AttributeTypes()) == 2 {
				if scopeHoldsUnmarked(&hcl.EvalContext{Variables: map[string]cty.Value{"it": v}}, t) && forEachMarkedAtTop(d, files) {
					outer = true
				}
			}
		}
	}
	f := files[d.Subject.Filename]
	if f == nil {
		return false, false
	}
	if strings.HasSuffix(d.Subject.Filename, ".json") {
		// the template lives inside a JSON string: its for directives cannot be located by range in the
		// file; any child scope above the diagnostic is taken to be an iteration (the attribution used
		// before the finer analysis existed)
		return false, d.EvalContext.Parent() != nil
	}
	var fors []*hclsyntax.ForExpr
	collect := func(n hclsyntax.Node) {
		_ = hclsyntax.VisitAll(n, func(x hclsyntax.Node) hcl.Diagnostics {
			if fe, ok := x.(*hclsyntax.ForExpr); ok {
				r := fe.SrcRange
				if r.Start.Byte <= d.Subject.Start.Byte && d.Subject.End.Byte <= r.End.Byte {
					fors = append(fors, fe)
				}
			}
			return nil
		})
	}
	if e, diags := hclsyntax.ParseExpression(f.Bytes, d.Subject.Filename, hcl.InitialPos); !diags.HasErrors() {
		collect(e)
	} else if cf, diags := hclsyntax.ParseConfig(f.Bytes, d.Subject.Filename, hcl.InitialPos); !diags.HasErrors() {
		collect(cf.Body.(*hclsyntax.Body))
	} else if te, diags := hclsyntax.ParseTemplate(f.Bytes, d.Subject.Filename, hcl.InitialPos); !diags.HasErrors() {
		collect(te)
	}
	sort.Slice(fors, func(i, j int) bool {
		return fors[i].SrcRange.End.Byte-fors[i].SrcRange.Start.Byte < fors[j].SrcRange.End.Byte-fors[j].SrcRange.Start.Byte
	})
	for i, fe := range fors {
		marked := false
		for c := d.EvalContext; c != nil; c = c.Parent() {
			v, diags, p := evalgen.SafeValue(fe.CollExpr, c)
			// (errors do not stop the iteration: a for expression whose collection reported, say, a duplicate
			// key still iterates over what was built)
			if _ = diags; p == "" && v.IsMarked() {
				marked = true
				break
			}
		}
		if !marked {
			continue
		}
		if i == 0 && d.Summary == "Duplicate object key" && fe.KeyExpr != nil && fe.KeyExpr.Range() == *d.Subject {
			own = true
		} else {
			outer = true
		}
	}
	return own, outer
}

// forEachMarkedAtTop: does a dynamic block around the diagnostic's subject iterate over a collection that is
// marked as a whole (the recorded root cause: its elements are then handed out without that mark)?  A
// collection that is not marked itself but holds marked elements hands those out as they are.  JSON files and
// anything that cannot be located count as "yes" (the coarser attribution used before).
func forEachMarkedAtTop(d *hcl.Diagnostic, files map[string]*hcl.File) bool {
	f := files[d.Subject.Filename]
	if f == nil || strings.HasSuffix(d.Subject.Filename, ".json") {
		return true
	}
	cf, diags := hclsyntax.ParseConfig(f.Bytes, d.Subject.Filename, hcl.InitialPos)
	if diags.HasErrors() {
		return true
	}
	found, marked := false, false
	var walk func(b *hclsyntax.Body)
	walk = func(b *hclsyntax.Body) {
		for _, blk := range b.Blocks {
			r := blk.Range()
			r.End = blk.CloseBraceRange.End
			if !(r.Start.Byte <= d.Subject.Start.Byte && d.Subject.End.Byte <= r.End.Byte) {
				continue
			}
			if blk.Type == "dynamic" {
				if fe, ok := blk.Body.Attributes["for_each"]; ok {
					found = true
					for c := d.EvalContext; c != nil; c = c.Parent() {
						if v, _, p := evalgen.SafeValue(fe.Expr, c); p == "" && v.IsMarked() {
							marked = true
						}
					}
				}
			}
			walk(blk.Body)
		}
	}
	walk(cf.Body.(*hclsyntax.Body))
	return !found || marked
}

var shapeQuoted = regexp.MustCompile(`"(?:[^"\\]|\\.)*"`)
var shapeDigits = regexp.MustCompile(`[0-9]+`)

// messageShape abstracts a message: secrets become S, other quoted texts Q, digit runs N.
func messageShape(text string, sc []string) string {
	for _, t := range sc {
		text = strings.ReplaceAll(text, `"`+t+`"`, "S")
		text = strings.ReplaceAll(text, t, "S")
	}
	text = shapeQuoted.ReplaceAllString(text, "Q")
	text = shapeDigits.ReplaceAllString(text, "N")
	text = strings.Join(strings.Fields(text), "_")
	if len(text) > 240 {
		text = text[:240]
	}
	return text
}

// scopeHoldsUnmarked reports whether some variable of the diagnostic's evaluation context (or a parent)
// holds the text t in a part that carries no mark.
func scopeHoldsUnmarked(ctx *hcl.EvalContext, t string) bool {
	var walk func(v cty.Value) bool
	walk = func(v cty.Value) bool {
		if v.IsMarked() || !v.IsKnown() || v.IsNull() {
			return false
		}
		ty := v.Type()
		switch {
		case ty == cty.String:
			return strings.Contains(v.AsString(), t)
		case ty == cty.Number:
			// a secret number shows up as its decimal digits
			return strings.Contains(v.AsBigFloat().Text('f', -1), t)
		case ty.IsCollectionType() || ty.IsTupleType() || ty.IsObjectType():
			for it := v.ElementIterator(); it.Next(); {
				k, ev := it.Element()
				if walk(k) || walk(ev) {
					return true
				}
			}
		}
		return false
	}
	for c := ctx; c != nil; c = c.Parent() {
		for _, v := range c.Variables {
			if walk(v) {
				return true
			}
		}
	}
	return false
}
