package c19

import (
	"bytes"
	"fmt"
	"math/big"
	"regexp"
	"sort"
	"strings"

	"github.com/hashicorp/hcl/v2"
	"github.com/zclconf/go-cty/cty"

	"hx/lib"
	"hx/props/c01"
)

// corrTextW ties the model of the text writer's variable summary (HclModel/Diag/TextWriter.lean: stmtOf;
// theorems textwriter_* in Props/C19.lean) to hcl.NewDiagnosticTextWriter: random chains of 1..3 evaluation
// contexts (children shadowing parent names, sometimes with Variables == nil) over values of every modelled
// kind (strings, whole and fractional numbers, bools, typed and untyped nulls, unknowns, lists, maps, tuples,
// objects with 0 / 1 / 2 / 3 attributes, nesting up to 3; marks at the top, on elements, nowhere), and 1..5
// traversals per case (existing and missing roots, attribute steps, string / number / bool / null / unknown
// index keys, steps into marked collections, out-of-range, fractional, negative and wrong-type steps,
// traversals that render alike). A real diagnostic whose Expression reports exactly these traversals and
// whose EvalContext is the innermost context is rendered; per traversal the statement `<traversal> as <value>`
// / `<traversal> set to null` / none is compared with the model's token: skipped or shown, null, and for shown
// values the kind and the content (strings: Go %q of the model's content; numbers: the model's p/q converted
// to a 512-bit big.Float and printed with Text('g', 10), as valueStr does; bools; the single attribute name of
// an object, %q; collections, tuples and other objects: the kind only). The writer sorts the statements and
// shows only the first of several traversals with the same rendered traversal string: the harness renders the
// traversal strings itself (traversalStr is root, `.name`, `[valueStr(key)]`) and expects, per distinct string,
// the statement of the first traversal in order that the model shows. Independently of the model every string
// that occurs in the scope only at or below marks is searched for in the statements (Key TEXTW:secret-shown),
// and the model's count of tainted fragments must be 0 (textwriter_clean on the executable model, Key
// TEXTW:MODEL-TAINT). Marked index keys are not generated: valueStr(tStep.Key) panics on them (see
// corrTextWMarkedKey, counted as corr-textw:marked-key-panics).
func corrTextW(cx *lib.Ctx) {
	if !cx.HasModel() {
		return
	}
	R := cx.R.Fork()
	corrTextWMarkedKey(cx)
	n := cx.Scale(1500, 40000)
	for i := 0; i < n; i++ {
		corrTextWCase(cx, R.Fork())
	}
}

// twExpr is an expression whose only observable property is its list of traversals.
type twExpr struct {
	travs []hcl.Traversal
	rng   hcl.Range
}

func (e twExpr) Value(*hcl.EvalContext) (cty.Value, hcl.Diagnostics) { return cty.DynamicVal, nil }
func (e twExpr) Variables() []hcl.Traversal                          { return e.travs }
func (e twExpr) Range() hcl.Range                                    { return e.rng }
func (e twExpr) StartRange() hcl.Range                               { return e.rng }

var twRange = hcl.Range{Filename: "tw.hcl", Start: hcl.Pos{Line: 1, Column: 1, Byte: 0}, End: hcl.Pos{Line: 1, Column: 2, Byte: 1}}

var twNames = []string{"a", "b", "k0", "key", "né", `q"x`, "0", "1"}

func twPickVal(r *lib.Rand, xs []cty.Value) cty.Value { return xs[r.Intn(len(xs))] }
func twPickTy(r *lib.Rand, xs []cty.Type) cty.Type    { return xs[r.Intn(len(xs))] }

func twSortedKeys[T any](m map[string]T) []string {
	ks := make([]string, 0, len(m))
	for k := range m {
		ks = append(ks, k)
	}
	sort.Strings(ks)
	return ks
}

// twGen generates types and values.
type twGen struct {
	r *lib.Rand
}

func (g *twGen) secret() string {
	b := make([]byte, 10)
	for i := range b {
		b[i] = alnum[g.r.Intn(len(alnum))]
	}
	return "S-" + string(b)
}

func (g *twGen) ty(depth int) cty.Type {
	r := g.r
	k := r.Intn(10)
	if depth <= 0 && k >= 3 {
		k = r.Intn(3)
	}
	switch k {
	case 0:
		return cty.String
	case 1:
		return cty.Number
	case 2:
		return cty.Bool
	case 3, 4:
		return cty.List(g.ty(depth - 1))
	case 5:
		return cty.Map(g.ty(depth - 1))
	case 6, 7:
		n := r.Intn(4)
		ts := make([]cty.Type, n)
		for i := range ts {
			ts[i] = g.ty(depth - 1)
		}
		return cty.Tuple(ts)
	default:
		n := []int{0, 1, 1, 1, 2, 2, 3}[r.Intn(7)]
		at := map[string]cty.Type{}
		for len(at) < n {
			at[r.Pick(twNames)] = g.ty(depth - 1)
		}
		return cty.Object(at)
	}
}

// val: a value of the type; markMode 0: no marks, 1: marks on some nodes below, 2: as 1 (the caller marks the top)
func (g *twGen) val(ty cty.Type, markMode int) cty.Value {
	r := g.r
	v := g.known(ty, markMode)
	switch r.Intn(24) {
	case 0:
		v = cty.NullVal(ty)
	case 1:
		v = cty.UnknownVal(ty)
	}
	if markMode > 0 && r.Chance(1, 5) {
		v = v.Mark(Mark)
	}
	return v
}

func (g *twGen) known(ty cty.Type, markMode int) cty.Value {
	r := g.r
	switch {
	case ty == cty.String:
		switch r.Intn(8) {
		case 0:
			return cty.StringVal("")
		case 1:
			return cty.StringVal(r.Pick([]string{"0", "1", "2", "true", "a", "k0"}))
		case 2:
			return cty.StringVal(g.secret() + r.Pick([]string{"\n", "\"", "\\", "é", "\x00", "${x}"}))
		}
		return cty.StringVal(g.secret())
	case ty == cty.Number:
		switch r.Intn(8) {
		case 0:
			return cty.NumberIntVal(int64(r.Intn(4)))
		case 1:
			return cty.NumberIntVal(-int64(r.Intn(1000)))
		case 2:
			return cty.MustParseNumberVal(fmt.Sprintf("%d.%d", r.Intn(100), 1+r.Intn(999)))
		case 3:
			return cty.NumberFloatVal(float64(r.Intn(1000)) / float64(1+r.Intn(64)))
		case 4:
			return cty.MustParseNumberVal(fmt.Sprintf("%d%09d%09d", 1+r.Intn(9), r.Intn(1000000000), r.Intn(1000000000)))
		case 5:
			return cty.MustParseNumberVal(fmt.Sprintf("%de%d", 1+r.Intn(9), 10+r.Intn(30)))
		}
		return cty.NumberIntVal(int64(100000000 + r.Intn(900000000)))
	case ty == cty.Bool:
		return cty.BoolVal(r.Chance(1, 2))
	case ty.IsListType():
		n := r.Intn(4)
		if n == 0 {
			return cty.ListValEmpty(ty.ElementType())
		}
		xs := make([]cty.Value, n)
		for i := range xs {
			xs[i] = g.val(ty.ElementType(), markMode)
		}
		return cty.ListVal(xs)
	case ty.IsMapType():
		n := r.Intn(4)
		m := map[string]cty.Value{}
		for i := 0; i < n; i++ {
			m[r.Pick(twNames)] = g.val(ty.ElementType(), markMode)
		}
		if len(m) == 0 {
			return cty.MapValEmpty(ty.ElementType())
		}
		return cty.MapVal(m)
	case ty.IsTupleType():
		ets := ty.TupleElementTypes()
		xs := make([]cty.Value, len(ets))
		for i, et := range ets {
			xs[i] = g.val(et, markMode)
		}
		return cty.TupleVal(xs)
	case ty.IsObjectType():
		m := map[string]cty.Value{}
		atys := ty.AttributeTypes()
		for _, k := range twSortedKeys(atys) {
			m[k] = g.val(atys[k], markMode)
		}
		return cty.ObjectVal(m)
	}
	return cty.NullVal(ty)
}

// top: a value for a scope binding
func (g *twGen) top() cty.Value {
	r := g.r
	if r.Chance(1, 25) {
		return twPickVal(r, []cty.Value{cty.NullVal(cty.DynamicPseudoType), cty.DynamicVal, cty.NullVal(cty.DynamicPseudoType).Mark(Mark), cty.DynamicVal.Mark(Mark)})
	}
	mode := r.Intn(4) // 0, 1: no marks; 2: marks below; 3: the top (and some below)
	mm := 0
	if mode >= 2 {
		mm = 1
	}
	v := g.val(g.ty(3), mm)
	if mode == 3 {
		v = v.Mark(Mark)
	}
	return v
}

// twKeyStr is valueStr for index keys (traversalStr)
func twKeyStr(k cty.Value) string {
	if !k.Type().IsPrimitiveType() {
		return "..."
	}
	switch {
	case k.IsNull():
		return "null"
	case !k.IsKnown():
		return "(not yet known)"
	case k.Type() == cty.Bool:
		if k.True() {
			return "true"
		}
		return "false"
	case k.Type() == cty.Number:
		return k.AsBigFloat().Text('g', 10)
	default:
		return fmt.Sprintf("%q", k.AsString())
	}
}

func twTravStr(t hcl.Traversal) string {
	var sb strings.Builder
	for _, st := range t {
		switch s := st.(type) {
		case hcl.TraverseRoot:
			sb.WriteString(s.Name)
		case hcl.TraverseAttr:
			sb.WriteString("." + s.Name)
		case hcl.TraverseIndex:
			sb.WriteString("[" + twKeyStr(s.Key) + "]")
		}
	}
	return sb.String()
}

func twTravSexp(t hcl.Traversal) string {
	var sb strings.Builder
	sb.WriteString("(")
	for i, st := range t {
		if i > 0 {
			sb.WriteString(" ")
		}
		switch s := st.(type) {
		case hcl.TraverseRoot:
			sb.WriteString(lib.Hex(s.Name))
		case hcl.TraverseAttr:
			sb.WriteString("(a " + lib.Hex(s.Name) + ")")
		case hcl.TraverseIndex:
			sb.WriteString("(i " + lib.DumpValuePlain(s.Key) + ")")
		}
	}
	sb.WriteString(")")
	return sb.String()
}

// twBound: the names bound somewhere in the chain
func twBound(chain []map[string]cty.Value) []string {
	all := map[string]bool{}
	for _, vars := range chain {
		for n := range vars {
			all[n] = true
		}
	}
	return twSortedKeys(all)
}

// traversal: a traversal that mostly follows the shape of the value bound to the root
func (g *twGen) traversal(chain []map[string]cty.Value, names []string) hcl.Traversal {
	r := g.r
	root := r.Pick(names)
	if bound := twBound(chain); len(bound) > 0 && r.Chance(4, 5) {
		root = r.Pick(bound)
	}
	if r.Chance(1, 16) {
		root = "zz"
	}
	t := hcl.Traversal{hcl.TraverseRoot{Name: root, SrcRange: twRange}}
	var cur cty.Value
	found := false
	for _, vars := range chain {
		if v, ok := vars[root]; ok {
			cur, found = v, true
			break
		}
	}
	if !found {
		cur = cty.DynamicVal
	}
	attr := func(n string) { t = append(t, hcl.TraverseAttr{Name: n, SrcRange: twRange}) }
	index := func(k cty.Value) { t = append(t, hcl.TraverseIndex{Key: k, SrcRange: twRange}) }
	steps := []int{0, 0, 1, 1, 1, 2, 2, 3}[r.Intn(8)]
	for i := 0; i < steps; i++ {
		u, _ := cur.Unmark()
		ty := u.Type()
		next := cty.DynamicVal
		if r.Chance(1, 14) {
			// an arbitrary step, mostly ill-typed
			switch r.Intn(8) {
			case 0:
				attr(r.Pick(twNames))
			case 1:
				index(cty.NumberIntVal(int64(r.Intn(3))))
			case 2:
				index(cty.StringVal(r.Pick(twNames)))
			case 3:
				index(cty.BoolVal(r.Chance(1, 2)))
			case 4:
				index(cty.NullVal(twPickTy(r, []cty.Type{cty.String, cty.Number, cty.DynamicPseudoType})))
			case 5:
				index(cty.UnknownVal(twPickTy(r, []cty.Type{cty.String, cty.Number, cty.DynamicPseudoType, cty.Bool})))
			case 6:
				index(twPickVal(r, []cty.Value{cty.NumberFloatVal(0.5), cty.NumberIntVal(-1), cty.NumberIntVal(7), cty.StringVal("x")}))
			default:
				index(twPickVal(r, []cty.Value{cty.EmptyTupleVal, cty.ListValEmpty(cty.String), cty.EmptyObjectVal, cty.TupleVal([]cty.Value{cty.StringVal("a")})}))
			}
			cur = next
			continue
		}
		switch {
		case ty.IsObjectType() || ty.IsMapType():
			var keys []string
			if ty.IsObjectType() {
				keys = twSortedKeys(ty.AttributeTypes())
			} else if u.IsKnown() && !u.IsNull() {
				keys = twSortedKeys(u.AsValueMap())
			}
			if len(keys) == 0 && u.IsKnown() && r.Chance(3, 4) {
				return t // nothing to step into
			}
			k := r.Pick(twNames)
			if len(keys) > 0 && !r.Chance(1, 8) {
				k = r.Pick(keys)
			}
			if u.IsKnown() && !u.IsNull() {
				if ty.IsObjectType() && ty.HasAttribute(k) {
					next = u.GetAttr(k)
				} else if ty.IsMapType() && u.HasIndex(cty.StringVal(k)).True() {
					next = u.Index(cty.StringVal(k))
				}
			}
			switch r.Intn(5) {
			case 0, 1:
				index(cty.StringVal(k))
			case 2:
				if k == "0" || k == "1" {
					index(cty.MustParseNumberVal(k))
				} else {
					attr(k)
				}
			default:
				attr(k)
			}
		case ty.IsListType() || ty.IsTupleType():
			n := 0
			if ty.IsTupleType() {
				n = ty.Length()
			} else if u.IsKnown() && !u.IsNull() {
				n = u.LengthInt()
			}
			if n == 0 && u.IsKnown() && r.Chance(3, 4) {
				return t // nothing to step into
			}
			i := r.Intn(n + 1)
			if n > 0 && !r.Chance(1, 8) {
				i = r.Intn(n)
			}
			if i < n && u.IsKnown() && !u.IsNull() {
				next = u.Index(cty.NumberIntVal(int64(i)))
			}
			if r.Chance(1, 6) {
				index(cty.StringVal(fmt.Sprint(i)))
			} else {
				index(cty.NumberIntVal(int64(i)))
			}
		default:
			if r.Chance(4, 5) {
				return t
			}
			if r.Chance(1, 2) {
				attr(r.Pick(twNames))
			} else {
				index(cty.NumberIntVal(int64(r.Intn(2))))
			}
		}
		cur = next
	}
	return t
}

var (
	twStmtRe = regexp.MustCompile(`^(?:with |     )(.*)[,.]$`)
	twObjRe  = regexp.MustCompile(`^object with (?:(no attributes)|1 attribute ("(?:[^"\\]|\\.)*")|(\d+) attributes)$`)
	twCollRe = regexp.MustCompile(`^(?:empty .+|.+ with \d+ elements?)$`)
)

// twStatements extracts the statements of the variable summary from a rendering with Summary "s", Detail "d"
// and no source code.
func twStatements(out string) ([]string, bool) {
	const head = "Error: s\n\n  on tw.hcl line 1:\n  (source code not available)\n\n"
	const tail = "d\n\n"
	if !strings.HasPrefix(out, head) || !strings.HasSuffix(out, tail) {
		return nil, false
	}
	body := out[len(head) : len(out)-len(tail)]
	if body == "" {
		return nil, true
	}
	if !strings.HasSuffix(body, ".\n\n") {
		return nil, false
	}
	var stmts []string
	lines := strings.Split(strings.TrimSuffix(body, "\n\n"), "\n")
	for i, l := range lines {
		m := twStmtRe.FindStringSubmatch(l)
		if m == nil || (i == 0) != strings.HasPrefix(l, "with ") || (i == len(lines)-1) != strings.HasSuffix(l, ".") {
			return nil, false
		}
		stmts = append(stmts, m[1])
	}
	return stmts, true
}

// twExpect turns a token of the model into the text after "<traversal> " ("" = no statement; ok=false: the
// token is not comparable); exact=false: only the shape of the text is determined (collections).
func twExpect(tok string) (text string, kind string, ok bool) {
	switch {
	case tok == "skip":
		return "", "skip", true
	case tok == "null":
		return "set to null", "null", true
	case strings.HasPrefix(tok, "show:"):
		f := strings.SplitN(tok, ":", 3)
		if len(f) != 3 {
			return "", "", false
		}
		if f[2] == "-" {
			f[2] = "" // the wire encoding of the empty string
		}
		switch f[1] {
		case "str":
			return "as " + fmt.Sprintf("%q", unhex(f[2])), "str", true
		case "bool":
			return "as " + f[2], "bool", true
		case "num":
			q, good := new(big.Rat).SetString(f[2])
			if !good {
				return "", "", false
			}
			bf := new(big.Float).SetPrec(512).SetRat(q)
			return "as " + bf.Text('g', 10), "num", true
		case "coll":
			return "", "coll", true
		case "obj0":
			return "as object with no attributes", "obj0", true
		case "obj1":
			return "as object with 1 attribute " + fmt.Sprintf("%q", unhex(f[2])), "obj1", true
		case "objN":
			return "", "objN", true
		}
	}
	return "", "", false
}

// twMarkedOnly: the strings of the canary shape that occur in the chain at or below a mark and nowhere outside
func twMarkedOnly(chain []map[string]cty.Value) []string {
	marked, plain := map[string]bool{}, map[string]bool{}
	var walk func(v cty.Value, under bool)
	walk = func(v cty.Value, under bool) {
		under = under || v.IsMarked()
		v, _ = v.Unmark()
		if !v.IsKnown() || v.IsNull() {
			return
		}
		ty := v.Type()
		switch {
		case ty == cty.String:
			s := v.AsString()
			if len(s) >= 12 && strings.HasPrefix(s, "S-") {
				if under {
					marked[s[:12]] = true
				} else {
					plain[s[:12]] = true
				}
			}
		case ty.IsCollectionType() || ty.IsTupleType() || ty.IsObjectType():
			for it := v.ElementIterator(); it.Next(); {
				_, ev := it.Element()
				walk(ev, under)
			}
		}
	}
	for _, vars := range chain {
		for _, v := range vars {
			walk(v, false)
		}
	}
	var out []string
	for _, s := range twSortedKeys(marked) {
		if !plain[s] {
			out = append(out, s)
		}
	}
	return out
}

func corrTextWCase(cx *lib.Ctx, r *lib.Rand) {
	res := cx.Res
	g := &twGen{r: r}
	names := []string{"v0", "v1", "v2", "v3"}

	// the chain, innermost first; nil = Variables == nil
	nctx := 1 + r.Intn(3)
	chain := make([]map[string]cty.Value, nctx)
	for i := range chain {
		if nctx > 1 && r.Chance(1, 6) {
			continue // nil Variables
		}
		vars := map[string]cty.Value{}
		for _, n := range names {
			if r.Chance(2, 3) {
				vars[n] = g.top()
			}
		}
		chain[i] = vars
	}
	var ctx *hcl.EvalContext
	for i := nctx - 1; i >= 0; i-- {
		if ctx == nil {
			ctx = &hcl.EvalContext{}
		} else {
			ctx = ctx.NewChild()
		}
		ctx.Variables = chain[i]
	}

	nt := 1 + r.Intn(5)
	travs := make([]hcl.Traversal, 0, nt)
	for i := 0; i < nt; i++ {
		if i > 0 && r.Chance(1, 8) {
			travs = append(travs, travs[r.Intn(len(travs))]) // the same traversal again
			continue
		}
		travs = append(travs, g.traversal(chain, names))
	}

	// wire
	var cs, ts []string
	for _, vars := range chain {
		if vars == nil {
			cs = append(cs, "nil")
		} else {
			cs = append(cs, c01.EnvSexp(vars))
		}
	}
	for _, t := range travs {
		ts = append(ts, twTravSexp(t))
	}
	wire := "(" + strings.Join(cs, " ") + ") (" + strings.Join(ts, " ") + ")"
	input := "TEXTW " + wire

	rng := twRange
	diag := &hcl.Diagnostic{Severity: hcl.DiagError, Summary: "s", Detail: "d", Subject: &rng, Expression: twExpr{travs: travs, rng: rng}, EvalContext: ctx}
	var buf bytes.Buffer
	var werr error
	if !cx.Guard("diagnostic-text-writer", input, func() {
		werr = hcl.NewDiagnosticTextWriter(&buf, nil, 0, false).WriteDiagnostic(diag)
	}) {
		return
	}
	if werr != nil {
		res.Fail(lib.Failure{Kind: "corr", Key: "TEXTW:write-error", Desc: werr.Error(), Input: input})
		return
	}
	stmts, okp := twStatements(buf.String())
	if !okp {
		res.Fail(lib.Failure{Kind: "corr", Key: "TEXTW:layout", Desc: "the rendering does not have the expected layout (header, `with` statements, detail)", Input: input, Impl: buf.String()})
		return
	}

	// the oracle that needs no model: nothing that lives only at or below marks is printed
	for _, s := range twMarkedOnly(chain) {
		if strings.Contains(buf.String(), s) {
			res.Fail(lib.Failure{Kind: "corr", Key: "TEXTW:secret-shown", Desc: "the variable summary prints a string that occurs in the scope only at or below marks: " + s, Input: input, Impl: buf.String()})
			return
		}
	}

	ans := cx.Ask(input)
	parts := strings.Split(ans, " | ")
	toks := strings.Fields(parts[0])
	if len(parts) != 2 || len(toks) != len(travs) || !strings.HasPrefix(parts[1], "tainted=") {
		res.Fail(lib.Failure{Kind: "corr", Key: "TEXTW:bad-answer", Desc: "model answered " + lib.Trunc(ans, 300), Input: input})
		return
	}
	for _, t := range toks {
		if t == "unsupported" {
			res.Count("corr-textw:model-unsupported")
			return
		}
	}
	res.CorrChecked++
	res.Count("corr-textw")
	if parts[1] != "tainted=0" {
		res.Fail(lib.Failure{Kind: "corr", Key: "TEXTW:MODEL-TAINT", Desc: "the executable model shows a tainted fragment for a chain of exact scopes and unmarked keys (textwriter_clean would be false)", Input: input, Model: ans})
		return
	}

	// per distinct rendered traversal string: the statement of the first traversal that the model shows
	type exp struct {
		text, kind string
	}
	want := map[string]exp{}
	var order []string
	for i, t := range travs {
		text, kind, ok := twExpect(toks[i])
		if !ok {
			res.Fail(lib.Failure{Kind: "corr", Key: "TEXTW:bad-answer", Desc: "token " + toks[i], Input: input, Model: ans})
			return
		}
		res.Count("corr-textw:" + kind)
		if kind == "skip" {
			// why the real traversal is not shown (distribution only)
			switch v, ds := t.TraverseAbs(ctx); {
			case ds.HasErrors():
				res.Count("corr-textw:skip:error")
			case !v.IsKnown():
				res.Count("corr-textw:skip:unknown")
			case v.IsMarked():
				res.Count("corr-textw:skip:marked")
			}
		} else if len(t) > 1 {
			res.Count("corr-textw:shown-after-steps")
		}
		s := twTravStr(t)
		if _, dup := want[s]; dup {
			res.Count("corr-textw:same-traversal-string")
			if want[s].kind != "skip" || kind == "skip" {
				continue
			}
		} else {
			order = append(order, s)
		}
		want[s] = exp{text, kind}
	}
	fail := func(desc string) {
		res.Fail(lib.Failure{Kind: "corr", Key: "TEXTW", Desc: desc, Input: input, Model: ans, Impl: buf.String()})
	}
	used := make([]bool, len(stmts))
	for _, s := range order {
		e := want[s]
		// the statements of this traversal string
		var mine []string
		for j, st := range stmts {
			if !used[j] && (strings.HasPrefix(st, s+" as ") || st == s+" set to null") {
				used[j] = true
				mine = append(mine, strings.TrimPrefix(st, s+" "))
			}
		}
		switch {
		case e.kind == "skip" && len(mine) == 0:
		case e.kind == "skip":
			fail(fmt.Sprintf("the model skips %s, the writer shows it: %q", s, mine[0]))
			return
		case len(mine) == 0:
			fail(fmt.Sprintf("the model shows %s (%s), the writer has no statement for it", s, e.kind))
			return
		case len(mine) > 1:
			fail(fmt.Sprintf("the writer has %d statements for %s", len(mine), s))
			return
		case e.kind == "coll":
			if v := strings.TrimPrefix(mine[0], "as "); v == mine[0] || !twCollRe.MatchString(v) || twObjRe.MatchString(v) || strings.HasPrefix(v, `"`) {
				fail(fmt.Sprintf("%s: the model shows a collection or tuple, the writer: %q", s, mine[0]))
				return
			}
		case e.kind == "objN":
			m := twObjRe.FindStringSubmatch(strings.TrimPrefix(mine[0], "as "))
			if m == nil || m[3] == "" || !strings.HasPrefix(mine[0], "as ") {
				fail(fmt.Sprintf("%s: the model shows an object with several attributes, the writer: %q", s, mine[0]))
				return
			}
		case mine[0] != e.text:
			fail(fmt.Sprintf("%s: the model expects %q, the writer: %q", s, e.text, mine[0]))
			return
		}
	}
	for j, st := range stmts {
		if !used[j] {
			fail(fmt.Sprintf("the writer has a statement that belongs to no traversal: %q", st))
			return
		}
	}
	// the writer sorts the statements
	for j := 1; j < len(stmts); j++ {
		if stmts[j-1] > stmts[j] {
			fail("the statements are not sorted")
			return
		}
	}
}

// corrTextWMarkedKey: a primitive index key that carries a mark (possible only for traversals built through
// the API; the parser's keys are literals). traversalStr renders the key with valueStr before the writer looks
// at the marks of the result, and AsString / AsBigFloat / True panic on a marked value.
func corrTextWMarkedKey(cx *lib.Ctx) {
	rng := twRange
	t := hcl.Traversal{hcl.TraverseRoot{Name: "l", SrcRange: rng}, hcl.TraverseIndex{Key: cty.NumberIntVal(0).Mark(Mark), SrcRange: rng}}
	ctx := &hcl.EvalContext{Variables: map[string]cty.Value{"l": cty.ListVal([]cty.Value{cty.StringVal("x")})}}
	diag := &hcl.Diagnostic{Severity: hcl.DiagError, Summary: "s", Detail: "d", Subject: &rng, Expression: twExpr{travs: []hcl.Traversal{t}, rng: rng}, EvalContext: ctx}
	var buf bytes.Buffer
	func() {
		defer func() {
			if r := recover(); r != nil {
				cx.Res.Count("corr-textw:marked-key-panics")
			}
		}()
		_ = hcl.NewDiagnosticTextWriter(&buf, nil, 0, false).WriteDiagnostic(diag)
		cx.Res.Count("corr-textw:marked-key-no-panic")
	}()
}
