// Package c10: loading a configuration into the hclwrite syntax tree and saving it loses nothing.
package c10

import (
	"bytes"
	"fmt"
	"hash/fnv"
	"regexp"
	"runtime/debug"
	"sort"
	"strings"

	"github.com/hashicorp/hcl/v2"
	"github.com/hashicorp/hcl/v2/hclsyntax"
	"github.com/hashicorp/hcl/v2/hclwrite"
	"github.com/zclconf/go-cty/cty"

	"hx/lib"
)

func init() { lib.Register("C10", runC10) }

const (
	keyIndexKeyLost = "tokens-lost:index-key-bool-or-null"
	keyLabelsMulti  = "labels-empty:multi-token-quoted-label"
	keyLabelGapLost = "tokens-lost:comment-before-first-label"
)

// caseState deduplicates failure keys within one case (one defect may show through several observations).
type caseState struct {
	cx     *lib.Ctx
	src    []byte
	origin string
	fired  map[string]bool
}

func (cs *caseState) fail(key, desc, impl string) {
	if cs.fired[key] {
		return
	}
	cs.fired[key] = true
	cs.cx.Res.Fail(lib.Failure{Kind: "oracle", Key: key, Desc: desc + " (" + cs.origin + ")", Input: string(cs.src), Impl: impl})
}

func tokSeq(toks hclwrite.Tokens) []lib.TB {
	out := make([]lib.TB, len(toks))
	for i, t := range toks {
		out[i] = lib.TB{T: t.Type, B: string(t.Bytes)}
	}
	return out
}

func isBoolNullIdent(t lib.TB) bool {
	return t.T == hclsyntax.TokenIdent && (t.B == "true" || t.B == "false" || t.B == "null")
}

// alignTokens compares the token sequence of the source with the one held by the tree. The one known
// loss pattern (everything between "[" and "]" of a bool/null index key) is recognised, named, and
// skipped so that any other difference in the same file is still found and named by its token types.
func alignTokens(src, got []lib.TB, srcOff []int, labelGaps [][2]int) (keys []string, desc string) {
	i, j := 0, 0
	inLabelGap := func(off int) bool {
		for _, g := range labelGaps {
			if off >= g[0] && off < g[1] {
				return true
			}
		}
		return false
	}
	seen := map[string]bool{}
	add := func(k string) {
		if !seen[k] {
			seen[k] = true
			keys = append(keys, k)
		}
	}
	for i < len(src) && j < len(got) {
		if src[i] == got[j] {
			i++
			j++
			continue
		}
		if i > 0 && src[i-1].T == hclsyntax.TokenOBrack && got[j].T == hclsyntax.TokenCBrack {
			q, idents, ok := i, 0, true
			for q < len(src) && src[q].T != hclsyntax.TokenCBrack {
				switch {
				case src[q].T == hclsyntax.TokenNewline || src[q].T == hclsyntax.TokenComment:
				case isBoolNullIdent(src[q]):
					idents++
				default:
					ok = false
				}
				q++
			}
			if ok && idents == 1 && q < len(src) {
				add(keyIndexKeyLost)
				if desc == "" {
					desc = fmt.Sprintf("source token %d (%s %q) and the other tokens between the brackets of an index step are missing from the tree", i, lib.TyName(src[i].T), src[i].B)
				}
				i = q
				continue
			}
		}
		if src[i].T == hclsyntax.TokenComment && inLabelGap(srcOff[i]) {
			// comments between a block's type name and its first label
			q := i
			for q < len(src) && src[q].T == hclsyntax.TokenComment && inLabelGap(srcOff[q]) {
				q++
			}
			if q < len(src) && src[q] == got[j] {
				add(keyLabelGapLost)
				if desc == "" {
					desc = fmt.Sprintf("source token %d (%s %q) between a block type and its first label is missing from the tree", i, lib.TyName(src[i].T), src[i].B)
				}
				i = q
				continue
			}
		}
		k, _ := lib.DiffKey(src[i:], got[j:])
		add("tokens-changed:" + k)
		return keys, fmt.Sprintf("token %d: source has %s %q, tree has %s %q", i, lib.TyName(src[i].T), src[i].B, lib.TyName(got[j].T), got[j].B)
	}
	if i < len(src) || j < len(got) {
		k, _ := lib.DiffKey(src[i:], got[j:])
		if k == "" {
			k = "extra-tokens"
		}
		add("tokens-changed:" + k)
		if desc == "" {
			desc = fmt.Sprintf("token sequences differ in length: source %d, tree %d", len(src), len(got))
		}
	}
	return keys, desc
}

// oracle checks C10 on one source. It returns (valid, nontrivial).
func oracle(cx *lib.Ctx, src []byte, origin string) (bool, bool) {
	res := cx.Res
	nf, diags := hclsyntax.ParseConfig(src, "", hcl.InitialPos)
	if diags.HasErrors() {
		res.Count("skip-invalid:" + origin)
		return false, false
	}
	nbody := nf.Body.(*hclsyntax.Body)
	cs := &caseState{cx: cx, src: src, origin: origin, fired: map[string]bool{}}

	var f *hclwrite.File
	var wdiags hcl.Diagnostics
	// the buffer handed to the loader is the caller's and is recycled right after the call
	loadBuf := append([]byte{}, src...)
	if !cx.Guard("parseconfig", string(src), func() {
		f, wdiags = hclwrite.ParseConfig(loadBuf, "", hcl.InitialPos)
		for i := range loadBuf {
			loadBuf[i] = "#{}=\"\n x"[i%8]
		}
	}) {
		return true, true
	}
	if wdiags.HasErrors() || f == nil {
		cs.fail("load-error", "hclwrite.ParseConfig reports errors for a configuration hclsyntax.ParseConfig accepts: "+wdiags.Error(), "")
		return true, true
	}

	// (4) the tree exposes every attribute, block, label and variable reference. Done first, while the
	// tree's tokens still carry the source's spacing.
	cx.Guard("accessors", string(src), func() { compareBody(cs, nbody, f.Body(), "root") })

	// (1) the tree holds exactly the source's tokens
	ntoks, _ := hclsyntax.LexConfig(src, "", hcl.InitialPos)
	srcSeq := make([]lib.TB, len(ntoks))
	srcOff := make([]int, len(ntoks))
	for i, t := range ntoks {
		srcSeq[i] = lib.TB{T: t.Type, B: string(t.Bytes)}
		srcOff[i] = t.Range.Start.Byte
	}
	var labelGaps [][2]int
	collectLabelGaps(nbody, &labelGaps)
	var treeSeq []lib.TB
	var out []byte
	if !cx.Guard("bytes", string(src), func() {
		treeSeq = tokSeq(f.BuildTokens(nil))
		out = f.Bytes()
	}) {
		return true, true
	}
	keys, desc := alignTokens(srcSeq, treeSeq, srcOff, labelGaps)
	for _, k := range keys {
		cs.fail(k, "the unmodified tree does not hold the source's token sequence: "+desc, string(out))
	}
	if len(keys) == 0 {
		// (2) serialising = formatting the same tokens
		want := hclwrite.Format(src)
		if !bytes.Equal(out, want) {
			cs.fail("bytes-differ-from-format", "File.Bytes() of the unmodified tree differs from hclwrite.Format(src)", string(out)+"\n---- Format(src):\n"+string(want))
		} else if k, differ := lib.DiffKey(srcSeq, lib.LexSeq(out)); differ {
			// (3) the statement itself: the serialised bytes lex to the source's tokens. The tree is intact
			// here, so a difference is introduced by the spacing pass File.WriteTo applies (formatter defect).
			cs.fail("format-changed-tokens:"+k, "File.Bytes() lexes to a different token sequence than the source although the tree holds the source's tokens (the spacing pass of File.WriteTo merged or split tokens)", string(out))
		}
		if bytes.Equal(out, src) {
			res.Count("bytes-equal-source")
		}
	}

	// (5) a fragment: the same bytes loaded as if they sat at an offset of a larger document (start position
	// with a non-zero byte offset, line and column).  The position only locates diagnostics; the tree and
	// its serialisation are the same.
	if cx.R != nil && len(src) < 4000 {
		h := fnv.New32a()
		h.Write(src)
		hv := int(h.Sum32())
		start := hcl.Pos{Byte: 1 + hv%977, Line: 1 + (hv/977)%40, Column: 1 + (hv/39080)%60}
		var f2 *hclwrite.File
		var d2 hcl.Diagnostics
		if cx.Guard("parseconfig-at-offset", string(src), func() { f2, d2 = hclwrite.ParseConfig(src, "", start) }) {
			res.Count("loaded-at-offset")
			if d2.HasErrors() || f2 == nil {
				cs.fail("load-error:at-offset", fmt.Sprintf("hclwrite.ParseConfig with start position %v reports errors for a configuration it loads at the initial position: %s", start, d2.Error()), "")
			} else {
				var seq2 []lib.TB
				var out2 []byte
				if cx.Guard("bytes-at-offset", string(src), func() {
					seq2 = tokSeq(f2.BuildTokens(nil))
					out2 = f2.Bytes()
				}) {
					if k, differ := lib.DiffKey(treeSeq, seq2); differ {
						cs.fail("tokens-differ-at-offset:"+k, fmt.Sprintf("the tree loaded with start position %v holds other tokens than the tree loaded at the initial position", start), string(out2))
					} else if !bytes.Equal(out, out2) {
						cs.fail("bytes-differ-at-offset", fmt.Sprintf("File.Bytes() differs between start position %v and the initial position", start), string(out2))
					}
				}
			}
		}
	}

	nontrivial := len(nbody.Attributes)+len(nbody.Blocks) > 0
	return true, nontrivial
}

func collectLabelGaps(b *hclsyntax.Body, out *[][2]int) {
	for _, blk := range b.Blocks {
		if len(blk.LabelRanges) > 0 {
			*out = append(*out, [2]int{blk.TypeRange.End.Byte, blk.LabelRanges[0].Start.Byte})
		}
		collectLabelGaps(blk.Body, out)
	}
}

func labelTokenCount(src []byte, rng hcl.Range) (n int, quoted bool) {
	if rng.Start.Byte < 0 || rng.End.Byte > len(src) || rng.Start.Byte > rng.End.Byte {
		return 0, false
	}
	toks, _ := hclsyntax.LexConfig(src[rng.Start.Byte:rng.End.Byte], "", hcl.InitialPos)
	for _, t := range toks {
		if t.Type == hclsyntax.TokenEOF {
			continue
		}
		if t.Type == hclsyntax.TokenOQuote {
			quoted = true
		}
		n++
	}
	return n, quoted
}

func compareBody(cs *caseState, nb *hclsyntax.Body, wb *hclwrite.Body, path string) {
	// attributes
	var want, got []string
	for n := range nb.Attributes {
		want = append(want, n)
	}
	wattrs := wb.Attributes()
	for n := range wattrs {
		got = append(got, n)
	}
	sort.Strings(want)
	sort.Strings(got)
	if strings.Join(want, "\x00") != strings.Join(got, "\x00") {
		cs.fail("attributes-mismatch", fmt.Sprintf("Body.Attributes() at %s has names %q, the source has %q", path, got, want), "")
	}
	for _, n := range want {
		wa := wattrs[n]
		if wa == nil {
			continue
		}
		if ga := wb.GetAttribute(n); ga != wa {
			cs.fail("getattribute-mismatch", fmt.Sprintf("Body.GetAttribute(%q) at %s does not return the attribute listed by Attributes()", n, path), "")
		}
		compareVariables(cs, nb.Attributes[n], wa, path+"."+n)
	}
	// blocks
	wblocks := wb.Blocks()
	if len(wblocks) != len(nb.Blocks) {
		cs.fail("blocks-mismatch", fmt.Sprintf("Body.Blocks() at %s has %d blocks, the source has %d", path, len(wblocks), len(nb.Blocks)), "")
		return
	}
	for i, nblk := range nb.Blocks {
		wblk := wblocks[i]
		p := fmt.Sprintf("%s/%s[%d]", path, nblk.Type, i)
		if wblk.Type() != nblk.Type {
			cs.fail("block-type-mismatch", fmt.Sprintf("Block.Type() at %s is %q, the source has %q", p, wblk.Type(), nblk.Type), "")
		}
		gl := wblk.Labels()
		if !sameStrings(gl, nblk.Labels) {
			// which of the source's labels are quoted labels made of more than one literal token?
			var withoutMulti []string
			multi := 0
			for li, l := range nblk.Labels {
				n, quoted := labelTokenCount(cs.src, nblk.LabelRanges[li])
				if quoted && n > 3 {
					multi++
					continue
				}
				withoutMulti = append(withoutMulti, l)
			}
			if multi > 0 && sameStrings(gl, withoutMulti) {
				cs.fail(keyLabelsMulti, fmt.Sprintf("Block.Labels() at %s returns %q, the source has %q: quoted labels lexed into several literal tokens are not exposed", p, gl, nblk.Labels), fmt.Sprintf("%q", gl))
			} else {
				cs.fail("labels-mismatch", fmt.Sprintf("Block.Labels() at %s returns %q, the source has %q", p, gl, nblk.Labels), fmt.Sprintf("%q", gl))
			}
		}
		compareBody(cs, nblk.Body, wblk.Body(), p)
	}
}

func sameStrings(a, b []string) bool {
	if len(a) != len(b) {
		return false
	}
	for i := range a {
		if a[i] != b[i] {
			return false
		}
	}
	return true
}

func hasBoolNullKey(t hcl.Traversal) bool {
	for _, s := range t {
		if ix, ok := s.(hcl.TraverseIndex); ok {
			ty := ix.Key.Type()
			if ty != cty.String && ty != cty.Number {
				return true
			}
		}
	}
	return false
}

// compareVariables: the traversals of the writer expression are, in order, those of the native expression.
// A writer traversal exposes only its tokens, so it is re-read with the native expression parser.
// neededRoots finds root variables the expression really depends on without asking the library which variables
// it has: the expression is evaluated in an empty scope and the names of the "Unknown variable" errors are
// collected (a lower bound: branches that are not reached report nothing).
func neededRoots(e hclsyntax.Expression) (names []string) {
	defer func() { recover() }()
	_, diags := e.Value(&hcl.EvalContext{Variables: map[string]cty.Value{}})
	seen := map[string]bool{}
	for _, d := range diags {
		if d.Summary != "Unknown variable" {
			continue
		}
		if m := unknownVarRe.FindStringSubmatch(d.Detail); m != nil && !seen[m[1]] {
			seen[m[1]] = true
			names = append(names, m[1])
		}
	}
	sort.Strings(names)
	return names
}

var unknownVarRe = regexp.MustCompile(`There is no variable named "([^"]+)"`)

func compareVariables(cs *caseState, na *hclsyntax.Attribute, wa *hclwrite.Attribute, path string) {
	nvars := na.Expr.Variables()
	wvars := wa.Expr().Variables()
	// every root the evaluation asks the scope for must be the root of an exposed traversal
	reported := map[string]bool{}
	for _, wv := range wvars {
		for _, t := range wv.BuildTokens(nil) {
			if t.Type == hclsyntax.TokenIdent {
				reported[string(t.Bytes)] = true
				break
			}
		}
	}
	for _, n := range neededRoots(na.Expr) {
		if !reported[n] {
			cs.fail("variable-reference-not-exposed", fmt.Sprintf("%s refers to the variable %q (evaluating it in an empty scope reports it as unknown), but no traversal exposed by Expr().Variables() has that root", path, n), n)
			return
		}
	}
	if len(nvars) != len(wvars) {
		cs.fail("variables-count", fmt.Sprintf("Expr().Variables() of %s has %d traversals, the native expression has %d", path, len(wvars), len(nvars)), "")
		return
	}
	for i, nt := range nvars {
		want := lib.DumpTraversal(nt)
		// (called before File.Bytes(), which rewrites SpacesBefore of the tree's tokens in place)
		text := wvars[i].BuildTokens(nil).Bytes()
		e, d := hclsyntax.ParseExpression(text, "", hcl.InitialPos)
		got := ""
		if !d.HasErrors() {
			if st, ok := e.(*hclsyntax.ScopeTraversalExpr); ok {
				got = lib.DumpTraversal(st.Traversal)
			} else {
				got = lib.DumpExpr(e, false)
			}
		} else {
			got = "unparseable: " + d.Error()
		}
		if got == want {
			continue
		}
		if hasBoolNullKey(nt) {
			cs.fail(keyIndexKeyLost, fmt.Sprintf("traversal %d of %s reads back as %q (%s), the source has %s", i, path, text, got, want), string(text))
			continue
		}
		k := "variables-shape"
		if d.HasErrors() {
			k = "variables-unparseable"
		}
		cs.fail(k, fmt.Sprintf("traversal %d of %s reads back as %q (%s), the source has %s", i, path, text, got, want), string(text))
	}
}

// handVariables: sources with the variable references they contain, written down by hand (root names in
// source order): the tree must expose exactly these, whatever position the reference stands in — also a
// traversal written without parentheses as an object key, which only evaluation rejects as ambiguous.
var handVariables = []struct {
	src   string
	roots []string
}{
	{"x = { aws.east = gcp.west }\n", []string{"aws", "gcp"}},
	{"x = { c[0] = d, e.f.g = h[1].i }\n", []string{"c", "d", "e", "h"}},
	{"x = [{ k.l = 1 }, { (m.n) = o.p }]\n", []string{"k", "m", "o"}},
	{"x = { a = b, \"c\" = d, (e) = f, g.h = i, null = j, for_ = k }\n", []string{"b", "d", "e", "f", "g", "i", "j", "k"}},
	{"x = { a.b = c.d\n e[\"k\"] = f }\ny {\n z = { p.q = r }\n}\n", []string{"a", "c", "e", "f", "p", "r"}},
	{"x = f({ a.b = 1 }, [for v in w : { v.k = u }])\n", []string{"a", "w", "u"}},
	{"x = \"${ { s.t = 1 } }\"\n", []string{"s"}},
	{"x = foo[bar.baz][qux]\n", []string{"foo", "bar", "qux"}},
	{"x = a ? b.c : d[e]\n", []string{"a", "b", "d", "e"}},
}

func checkHandVariables(cx *lib.Ctx) {
	for _, hv := range handVariables {
		cx.Guard("hand-variables", hv.src, func() {
			f, diags := hclwrite.ParseConfig([]byte(hv.src), "", hcl.InitialPos)
			if diags.HasErrors() {
				cx.Res.Fail(lib.Failure{Kind: "oracle", Key: "load-error:hand-variables", Desc: diags.Error(), Input: hv.src})
				return
			}
			var got []string
			var walk func(b *hclwrite.Body)
			walk = func(b *hclwrite.Body) {
				type na struct {
					n string
					a *hclwrite.Attribute
				}
				var as []na
				for n, a := range b.Attributes() {
					as = append(as, na{n, a})
				}
				sort.Slice(as, func(i, j int) bool { return as[i].n < as[j].n })
				for _, x := range as {
					for _, t := range x.a.Expr().Variables() {
						toks := t.BuildTokens(nil)
						if len(toks) > 0 {
							got = append(got, string(toks[0].Bytes))
						}
					}
				}
				for _, blk := range b.Blocks() {
					walk(blk.Body())
				}
			}
			walk(f.Body())
			cx.Res.Count("hand-variables")
			cx.Res.Case("hand-variables|"+hv.src, true)
			if strings.Join(got, ",") != strings.Join(hv.roots, ",") {
				cx.Res.Fail(lib.Failure{Kind: "oracle", Key: "variable-reference-not-exposed:hand-written-expectation", Desc: "Expr().Variables() exposes the roots [" + strings.Join(got, ",") + "], the source contains [" + strings.Join(hv.roots, ",") + "]", Input: hv.src})
			}
		})
	}
}

// handCorpus: sources that exercise a rule of the loader or once exposed a problem.
var handCorpus = []string{
	"",
	"\n",
	"# only a comment",
	"# only a comment\n",
	"/* c */",
	"a = 1",
	"a = 1 # trailing, no newline",
	"a = 1 /* c */",
	"a = foo[true]\n",
	"a = foo[null]\n",
	"a = foo[ /* c */ false\n]\n",
	"a = foo[\"k\"][0][1.5].b.0.c[*].d.*.e\n",
	"a = foo.*.0.b\n",
	"a = foo[*][0].b[\"k\"]\n",
	"a = a.0 .5\n",
	"b \"100%\" \"a$b\" \"a$${b}\" \"x\" y {}\n",
	"b \"\" {\n}\n",
	"b /* c */ \"x\" {}\n",
	"b /* c */ x /* d */ \"y\" /* e */ {\n}\n",
	"b { a = foo.bar }\n",
	"b {\n  # lead\n  a = 1 # line\n  /* x */ c = 2 /* y */\n\n  # detached\n\n  d {\n  }\n} # after block\n",
	"a = <<EOT\nhello ${foo.bar[0]}\nEOT\nb = <<-EOT\n    ${x.*.y}\n    EOT\n",
	"a = [<<EOT\n${foo}\nEOT\n, b.c]\n",
	"a = \"${foo[\"k\"]}-${bar.0}%{ if baz[0] }x%{ else }${qux}%{ endif }\"\n",
	"a = [for k, v in foo.bar : k => v.x... if baz[k]]\n",
	"a = {for k, v in foo : (k) => v[0] if v.ok}\n",
	"a = { (foo.bar) = baz[0], \"q\" : x.y\n z = w }\n",
	"a = f(foo.a, [b.c, {d = e.f}]...)\n",
	"a = foo[bar[baz[0]]]\n",
	// object keys that are traversals written without parentheses (parse fine; ambiguous only when evaluated)
	"x = { aws.east = aws.west }\n",
	"x = { c[0] = d, e.f.g = h[1].i }\n",
	"x = [{ k.l = 1 }, { (m.n) = o.p }]\n",
	"x = { a.b = c.d\n e[\"k\"] = f }\n",
	// a literal string index key spelled as a heredoc
	"x = foo[<<EOT\nbar\nEOT\n].baz\n",
	"x = foo[<<-EOT\n  bar\n  EOT\n][0]\n",
	"y = [a[<<K\nk\nK\n], b]\n",
	"a = foo[(1)].b\n",
	"a = (foo).bar[0]\n",
	"a = foo /* c */ . /* d */ bar\n",
	"a = (foo\n.bar\n[\n0\n])\n",
	"a = 1\r\nb = foo.bar # c\r\nblk {\r\n  c = a[0]\r\n}\r\n",
	"\ufeffa = 1\n",
	"a = b\nc = d",
	"blk {\n  a = b }\n",
	"x = a ? b.c : d[0]\ny = !e.f && -g[1] > h.*.i\n",
}

func runC10(cx *lib.Ctx) {
	res := cx.Res
	defer debug.SetGCPercent(debug.SetGCPercent(400))
	if cx.Replay != "" {
		src := lib.ReplayInput(cx.Replay)
		_, nt := oracle(cx, []byte(src), "replay")
		res.Case(src, nt)
		res.Sample(src)
		return
	}
	res.Rule = "body trees over the full expression grammar with every traversal shape (attr, string/number/bool/null index, legacy index, full and attribute splat) placed in every expression position (systematic position x shape products, nested up to two further positions, plus random trees with traversals sprinkled over the variable leaves), rendered under random layouts (spacing, inline / line / lead / detached / block comments, CRLF, tabs, optional newlines, heredocs, missing final newline), checked with the real lexer to denote the intended tokens; plus byte mutations that still parse and an exhaustive enumeration of short traversal-token windows; non-trivial = body has at least one item; distinct by source text"

	checkHandVariables(cx)
	for _, s := range handCorpus {
		_, nt := oracle(cx, []byte(s), "corpus")
		res.Case(s, nt)
		res.Count("corpus")
	}

	note := func(k string) { res.Count(k) }

	// lib.NewRand(seed) starts consecutive seeds one step apart on the same splitmix sequence, so forking
	// per case directly from cx.R would make seed N+1 replay seed N's cases shifted by one. One extra Fork
	// (seeded by a mixed output) decorrelates the seeds.
	R := cx.R.Fork()

	// systematic: every shape in every position, several layouts each
	reps := cx.Scale(3, 60)
	for rep := 0; rep < reps; rep++ {
		for pi := range positions {
			for _, sh := range shapes {
				r := R.Fork()
				g := &gen{r: r, eg: &lib.ExprGen{R: r}}
				note("shape:" + sh)
				e := g.place(g.trav(sh), pi, rep%3, note)
				runGenerated(cx, g, []*lib.Node{e}, "systematic", rep == 0 && pi < 2 && sh == "mixed")
			}
		}
	}

	// random: random bodies, traversals sprinkled, a few placed expressions injected
	n := cx.Scale(8000, 300000)
	for i := 0; i < n; i++ {
		r := R.Fork()
		g := &gen{r: r, eg: &lib.ExprGen{R: r}}
		var extra []*lib.Node
		for k := r.Intn(3); k > 0; k-- {
			sh := r.Pick(shapes)
			note("shape:" + sh)
			extra = append(extra, g.place(g.trav(sh), r.Intn(len(positions)), r.Intn(3), note))
		}
		runGenerated(cx, g, extra, "random", i < 2)
	}

	windows(cx)
	corrBuild(cx)
}

// runGenerated builds a body around the given expressions, renders it and runs the oracle.
func runGenerated(cx *lib.Ctx, g *gen, exprs []*lib.Node, origin string, sample bool) {
	res := cx.Res
	r := g.r
	bg := &lib.BodyGen{R: r, E: g.eg, ExprDep: 2 + r.Intn(2)}
	depth := r.Intn(3)
	body := bg.Body(depth)
	note := func(k string) { res.Count(k) }
	g.sprinkle(body, note)
	// inject the expressions as attributes of the root body or of a nested block body
	var bodies []*lib.Node
	body.Walk(func(n *lib.Node) {
		if n.K == "body" {
			bodies = append(bodies, n)
		}
	})
	for i, e := range exprs {
		tgt := bodies[r.Intn(len(bodies))]
		name := fmt.Sprintf("t%d", i)
		item := &lib.Node{K: "attrdef", S: name, Kids: []*lib.Node{e}}
		at := r.Intn(len(tgt.Kids) + 1)
		tgt.Kids = append(tgt.Kids[:at], append([]*lib.Node{item}, tgt.Kids[at:]...)...)
	}
	// a block rendered in one-line form must still have at most one attribute
	body.Walk(func(n *lib.Node) {
		if n.K == "block" && n.Flag {
			b := n.Kids[len(n.Kids)-1]
			if len(b.Kids) > 1 || (len(b.Kids) == 1 && (b.Kids[0].K != "attrdef" || containsRaw(b.Kids[0]))) {
				n.Flag = false
			}
		}
	})
	rd := &lib.Renderer{R: r, ExtraParen: 5}
	var toks []lib.Tk
	rd.BodyTokens(&toks, body)
	lay := lib.RandomLayout(r)
	if lay.Comments {
		toks = g.decorate(toks, 12)
	}
	src := lib.RenderChecked(toks, lay)
	if r.Chance(1, 10) {
		src = strings.TrimRight(src, "\r\n")
		res.Count("no-final-newline")
	}
	if lay.Comments {
		res.Count("layout:comments")
	}
	if lay.CRLF {
		res.Count("layout:crlf")
	}
	if strings.Contains(src, "<<") {
		res.Count("with-heredoc")
	}
	valid, nt := oracle(cx, []byte(src), origin)
	res.Case(src, nt)
	if valid {
		res.Count("valid:" + origin)
	}
	if sample {
		res.Sample(src)
	}
	if valid && r.Chance(1, 4) {
		m := lib.MutateBytes(r, []byte(src))
		if v, nt2 := oracle(cx, m, "mutated"); v {
			res.Case(string(m), nt2)
			res.Count("valid:mutated")
		}
	}
}

func containsRaw(n *lib.Node) bool {
	found := false
	n.Walk(func(x *lib.Node) {
		if x.K == "raw" && strings.Contains(x.S, "\n") {
			found = true
		}
	})
	return found
}

// windows enumerates short windows of traversal-relevant tokens in several expression contexts, single
// spaced, and runs the oracle on every window that parses.
func windows(cx *lib.Ctx) {
	reps := []string{"a", ".", "0", "[", "]", "*", "\"s\"", "true", "null", "(", ")", ",", "-", "\"${a}\"", "/* c */", "..."}
	ctxs := [][2]string{{"x = ", "\n"}, {"x = a", "\n"}, {"x = a.", "\n"}, {"x = a[", "]\n"}, {"x = f(", ")\n"}, {"x = \"${", "}\"\n"}, {"b {\n x = [", "] # c\n}"}}
	k := 4
	if cx.Thorough() {
		k = 5
	}
	idx := make([]int, k)
	count, valid, pruned := 0, 0, 0
	for {
		parts := make([]string, k)
		for i, j := range idx {
			parts[i] = reps[j]
		}
		w := strings.Join(parts, " ")
		// every context is bracket-balanced, so a window that is not cannot parse: skip it unparsed
		balanced := true
		var stack []string
		for _, p := range parts {
			switch p {
			case "(", "[":
				stack = append(stack, p)
			case ")", "]":
				if len(stack) == 0 || (p == ")") != (stack[len(stack)-1] == "(") {
					balanced = false
				} else {
					stack = stack[:len(stack)-1]
				}
			}
		}
		if len(stack) > 0 {
			balanced = false
		}
		for _, c := range ctxs {
			if !balanced {
				pruned++
				break
			}
			src := []byte(c[0] + w + c[1])
			count++
			if v, nt := oracle(cx, src, "window"); v {
				valid++
				cx.Res.Case(string(src), nt)
			}
		}
		p := k - 1
		for p >= 0 {
			idx[p]++
			if idx[p] < len(reps) {
				break
			}
			idx[p] = 0
			p--
		}
		if p < 0 {
			break
		}
	}
	cx.Res.Exhaustive = map[string]int{"windows_tried": count, "windows_valid": valid, "windows_unbalanced_not_parsed": pruned, "window_len": k, "representatives": len(reps)}
}
