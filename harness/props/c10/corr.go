package c10

import (
	"fmt"
	"sort"
	"strconv"
	"strings"

	"github.com/hashicorp/hcl/v2"
	"github.com/hashicorp/hcl/v2/hclsyntax"
	"github.com/hashicorp/hcl/v2/hclwrite"
	"github.com/zclconf/go-cty/cty"

	"hx/lib"
)

// Correspondence BUILD: the loader model (lean/HclModel/Write/Loader.lean) against hclwrite/parser.go.
//
// For a source that parses, the model gets what parser.go works from — the lexer's tokens (start byte and the
// token classes the loader distinguishes) and the source ranges of the native AST that parser.go reads — and
// answers with the writer's node tree in the format of hclwrite.VerifDumpTree plus the order of the tokens
// in the tree. The implementation side is VerifDumpTree of hclwrite.ParseConfig on the same bytes plus the
// tokens of File.BuildTokens mapped back to lexer indices. A panic of ParseConfig must be the model's "panic".
//
// Wire format (S-expressions, see lean/Driver/OpBuild.lean):
//
//	BUILD (start class start class …) (lo hi item…)
//	class = C comment ending in "\n" | c other comment | n newline | e eof | i ident | m number | d dot | o "[" | b "]" | x other
//	item  = (a lo hi nlo nhi elo ehi (xlo xhi trav…)) | (b lo hi tlo thi (llo lhi …) olo ohi clo chi (blo bhi item…))
//	trav  = (lo hi step…)     step = (n lo hi) root/attr | (s lo hi) | (m lo hi) | (o lo hi) index with string / number / other key

const corrBuildMaxTokens = 220

// buildEnc renders the native AST's ranges and collects the input distribution of one case.
type buildEnc struct {
	sb          strings.Builder
	src         []byte
	unsupported string
	counts      map[string]int
}

func (e *buildEnc) rng(r hcl.Range) {
	e.sb.WriteByte(' ')
	e.sb.WriteString(strconv.Itoa(r.Start.Byte))
	e.sb.WriteByte(' ')
	e.sb.WriteString(strconv.Itoa(r.End.Byte))
}

// corrNodeSorter orders body items exactly like hclwrite's nativeNodeSorter.
type corrNodeSorter struct{ nodes []hclsyntax.Node }

func (s corrNodeSorter) Len() int { return len(s.nodes) }
func (s corrNodeSorter) Less(i, j int) bool {
	return s.nodes[i].Range().Start.Byte < s.nodes[j].Range().Start.Byte
}
func (s corrNodeSorter) Swap(i, j int) { s.nodes[i], s.nodes[j] = s.nodes[j], s.nodes[i] }

// body writes " lo hi item…" (the caller supplies the parentheses).
func (e *buildEnc) body(b *hclsyntax.Body, depth int) {
	e.rng(b.SrcRange)
	items := make([]hclsyntax.Node, 0, len(b.Attributes)+len(b.Blocks))
	for _, a := range b.Attributes {
		items = append(items, a)
	}
	for _, blk := range b.Blocks {
		items = append(items, blk)
	}
	sort.Sort(corrNodeSorter{items})
	for _, it := range items {
		switch t := it.(type) {
		case *hclsyntax.Attribute:
			e.counts["attrs"]++
			e.sb.WriteString(" (a")
			e.rng(t.Range())
			e.rng(t.NameRange)
			e.rng(t.EqualsRange)
			e.sb.WriteString(" (")
			e.expr(t.Expr)
			e.sb.WriteString("))")
		case *hclsyntax.Block:
			e.counts["blocks"]++
			if depth > 0 {
				e.counts["blocks-nested"]++
			}
			e.counts[fmt.Sprintf("block-labels:%d", len(t.LabelRanges))]++
			e.sb.WriteString(" (b")
			e.rng(t.Range())
			e.rng(t.TypeRange)
			e.sb.WriteString(" (")
			for _, lr := range t.LabelRanges {
				e.rng(lr)
			}
			e.sb.WriteString(")")
			e.rng(t.OpenBraceRange)
			e.rng(t.CloseBraceRange)
			e.sb.WriteString(" (")
			e.body(t.Body, depth+1)
			e.sb.WriteString("))")
		}
	}
}

// expr writes "xlo xhi trav…" without the leading space of rng.
func (e *buildEnc) expr(x hclsyntax.Expression) {
	r := x.Range()
	e.sb.WriteString(strconv.Itoa(r.Start.Byte))
	e.sb.WriteByte(' ')
	e.sb.WriteString(strconv.Itoa(r.End.Byte))
	vars := x.Variables()
	switch {
	case len(vars) == 0:
		e.counts["expr-travs:0"]++
	case len(vars) == 1:
		e.counts["expr-travs:1"]++
	default:
		e.counts["expr-travs:2+"]++
	}
	for _, tr := range vars {
		e.counts["traversals"]++
		if len(tr) >= 4 {
			e.counts["traversal-len:4+"]++
		} else {
			e.counts[fmt.Sprintf("traversal-len:%d", len(tr))]++
		}
		e.sb.WriteString(" (")
		sr := tr.SourceRange()
		e.sb.WriteString(strconv.Itoa(sr.Start.Byte))
		e.sb.WriteByte(' ')
		e.sb.WriteString(strconv.Itoa(sr.End.Byte))
		for _, step := range tr {
			k := ""
			switch ts := step.(type) {
			case hcl.TraverseRoot:
				k = "n"
				e.counts["step:root"]++
			case hcl.TraverseAttr:
				k = "n"
				e.counts["step:attr"]++
			case hcl.TraverseIndex:
				kind := ""
				switch ts.Key.Type() {
				case cty.String:
					k, kind = "s", "str"
				case cty.Number:
					k, kind = "m", "num"
				default:
					k, kind = "o", "other"
				}
				lo := step.SourceRange().Start.Byte
				if lo >= 0 && lo < len(e.src) && e.src[lo] == '.' {
					e.counts["step:index-legacy-"+kind]++
				} else {
					e.counts["step:index-"+kind]++
				}
			default:
				e.unsupported = fmt.Sprintf("%T", step)
				k = "n"
			}
			e.sb.WriteString(" (")
			e.sb.WriteString(k)
			e.rng(step.SourceRange())
			e.sb.WriteString(")")
		}
		e.sb.WriteString(")")
	}
}

func buildTokClass(t hclsyntax.Token) byte {
	switch t.Type {
	case hclsyntax.TokenComment:
		if len(t.Bytes) > 0 && t.Bytes[len(t.Bytes)-1] == '\n' {
			return 'C'
		}
		return 'c'
	case hclsyntax.TokenNewline:
		return 'n'
	case hclsyntax.TokenEOF:
		return 'e'
	case hclsyntax.TokenIdent:
		return 'i'
	case hclsyntax.TokenNumberLit:
		return 'm'
	case hclsyntax.TokenDot:
		return 'd'
	case hclsyntax.TokenOBrack:
		return 'o'
	case hclsyntax.TokenCBrack:
		return 'b'
	}
	return 'x'
}

// corrBuildOne compares model and implementation on one source; origin names the generator.
func corrBuildOne(cx *lib.Ctx, src []byte, origin string) {
	res := cx.Res
	nf, diags := hclsyntax.ParseConfig(src, "", hcl.InitialPos)
	if diags.HasErrors() {
		res.Count("corr-build:skip-invalid:" + origin)
		return
	}
	ntoks, ldiags := hclsyntax.LexConfig(src, "", hcl.InitialPos)
	if ldiags.HasErrors() {
		res.Count("corr-build:skip-invalid:" + origin)
		return
	}
	if len(ntoks) > corrBuildMaxTokens {
		res.Count("corr-build:skip-long")
		return
	}
	enc := &buildEnc{src: src, counts: map[string]int{}}
	enc.sb.WriteString("BUILD (")
	comments := 0
	for i, t := range ntoks {
		if i > 0 {
			enc.sb.WriteByte(' ')
		}
		enc.sb.WriteString(strconv.Itoa(t.Range.Start.Byte))
		enc.sb.WriteByte(' ')
		c := buildTokClass(t)
		enc.sb.WriteByte(c)
		if c == 'c' || c == 'C' {
			comments++
		}
	}
	enc.sb.WriteString(") (")
	enc.body(nf.Body.(*hclsyntax.Body), 0)
	enc.sb.WriteString(")")
	if enc.unsupported != "" {
		// a step kind parser.go panics on and the model has no constructor for
		res.Count("corr-build:skip-unsupported-step:" + enc.unsupported)
		return
	}
	line := strings.Replace(enc.sb.String(), "( ", "(", -1)

	// the implementation
	impl := ""
	var treeToks hclwrite.Tokens
	func() {
		defer func() {
			if r := recover(); r != nil {
				impl = "panic"
				res.Count("corr-build:impl-panic")
			}
		}()
		f, wdiags := hclwrite.ParseConfig(src, "", hcl.InitialPos)
		if wdiags.HasErrors() || f == nil {
			impl = "error"
			return
		}
		impl = hclwrite.VerifDumpTree(f)
		treeToks = f.BuildTokens(nil)
	}()

	model := cx.Ask(line)
	res.CorrChecked++
	res.Count("corr-build:cases")
	res.Count("corr-build:origin:" + origin)
	for k, v := range enc.counts {
		res.Distribution["corr-build:"+k] += v
	}
	res.Distribution["corr-build:tokens"] += len(ntoks)
	res.Distribution["corr-build:comment-tokens"] += comments
	if comments > 0 {
		res.Count("corr-build:with-comments")
	}
	if enc.counts["blocks"] > 0 {
		res.Count("corr-build:with-blocks")
	}
	if enc.counts["traversals"] > 0 {
		res.Count("corr-build:with-traversals")
	}
	if strings.Contains(string(src), "<<") {
		res.Count("corr-build:with-heredoc")
	}
	if model == "panic" {
		res.Count("corr-build:model-panic")
	}

	if impl != "panic" && impl != "error" {
		ids, exact, mapped := mapTokens(ntoks, treeToks, model)
		impl += " | " + ids
		if !exact {
			key, what := "loader-tokens-lost", "some source tokens are missing from the tree (the others are in source order)"
			if !mapped {
				key, what = "loader-tokens-reordered", "the tree's tokens are not the source's tokens in source order (reordered, duplicated or altered)"
			}
			res.Fail(lib.Failure{Kind: "oracle", Key: key, Desc: "File.BuildTokens of the freshly loaded tree: " + what, Input: string(src), Impl: impl})
		}
	}
	if model != impl {
		res.Fail(lib.Failure{Kind: "corr", Key: "BUILD", Desc: "node tree / token order of hclwrite.ParseConfig differs from the loader model (" + origin + "); source: " + strconv.Quote(lib.Trunc(string(src), 400)), Input: line, Model: model, Impl: impl})
	}
}

// mapTokens maps the tokens held by the tree back to lexer indices. exact: the tree holds exactly the
// lexer's tokens in order. Otherwise the ids the model predicts are checked position by position (type,
// bytes, spacing) and taken when they fit; failing that the tokens are matched greedily in source order
// ("?" for a token that cannot be matched); mapped=false when neither works.
func mapTokens(ntoks hclsyntax.Tokens, got hclwrite.Tokens, model string) (ids string, exact, mapped bool) {
	type sig struct {
		ty     hclsyntax.TokenType
		bytes  string
		spaces int
	}
	want := make([]sig, len(ntoks))
	last := 0
	for i, t := range ntoks {
		want[i] = sig{t.Type, string(t.Bytes), t.Range.Start.Byte - last}
		last = t.Range.End.Byte
	}
	same := func(w sig, g *hclwrite.Token) bool {
		return w.ty == g.Type && w.bytes == string(g.Bytes) && w.spaces == g.SpacesBefore
	}
	exact = len(got) == len(want)
	if exact {
		for i, g := range got {
			if !same(want[i], g) {
				exact = false
				break
			}
		}
	}
	if exact {
		parts := make([]string, len(got))
		for i := range got {
			parts[i] = strconv.Itoa(i)
		}
		return strings.Join(parts, " "), true, true
	}
	// do the model's ids describe the tree's tokens?
	if p := strings.Index(model, " | "); p >= 0 {
		fields := strings.Fields(model[p+3:])
		if len(fields) == len(got) {
			fits, increasing, prev := true, true, -1
			for i, f := range fields {
				id, err := strconv.Atoi(f)
				if err != nil || id < 0 || id >= len(want) || !same(want[id], got[i]) {
					fits = false
					break
				}
				if id <= prev {
					increasing = false
				}
				prev = id
			}
			if fits {
				return strings.Join(fields, " "), false, increasing
			}
		}
	}
	parts := make([]string, len(got))
	j := 0
	mapped = true
	for i, g := range got {
		k := j
		for k < len(want) && !same(want[k], g) {
			k++
		}
		if k == len(want) {
			parts[i] = "?"
			mapped = false
			continue
		}
		parts[i] = strconv.Itoa(k)
		j = k + 1
	}
	return strings.Join(parts, " "), false, mapped
}

// corrBuildSource renders one generated configuration (the C10 oracle's generator, kept small).
func corrBuildSource(g *gen, exprs []*lib.Node, note func(string)) string {
	r := g.r
	bg := &lib.BodyGen{R: r, E: g.eg, ExprDep: 1 + r.Intn(2)}
	body := bg.Body(r.Intn(3))
	g.sprinkle(body, note)
	var bodies []*lib.Node
	body.Walk(func(n *lib.Node) {
		if n.K == "body" {
			bodies = append(bodies, n)
		}
	})
	for i, e := range exprs {
		tgt := bodies[r.Intn(len(bodies))]
		item := &lib.Node{K: "attrdef", S: fmt.Sprintf("t%d", i), Kids: []*lib.Node{e}}
		at := r.Intn(len(tgt.Kids) + 1)
		tgt.Kids = append(tgt.Kids[:at], append([]*lib.Node{item}, tgt.Kids[at:]...)...)
	}
	body.Walk(func(n *lib.Node) {
		if n.K == "block" && n.Flag {
			b := n.Kids[len(n.Kids)-1]
			if len(b.Kids) > 1 || (len(b.Kids) == 1 && (b.Kids[0].K != "attrdef" || containsRaw(b.Kids[0]))) {
				n.Flag = false
			}
		}
	})
	rd := &lib.Renderer{R: r, ExtraParen: 5}
	var toks []lib.Tk
	rd.BodyTokens(&toks, body)
	lay := lib.RandomLayout(r)
	if lay.Comments {
		toks = g.decorate(toks, 15)
	}
	src := lib.RenderChecked(toks, lay)
	if r.Chance(1, 10) {
		src = strings.TrimRight(src, "\r\n")
	}
	return src
}

var buildInserts = []string{" ", "\t", "/* p */", " /* p */ ", "/* p\n q */", "# p\n", "// p\n", "\n", "\n\n", "\r\n"}

// perturbLayout inserts a piece of layout (space, comment, newline) at a random token boundary. The
// result is only used when it still parses.
func perturbLayout(r *lib.Rand, src []byte) []byte {
	toks, _ := hclsyntax.LexConfig(src, "", hcl.InitialPos)
	if len(toks) == 0 {
		return src
	}
	out := append([]byte{}, src...)
	for k := 1 + r.Intn(2); k > 0; k-- {
		t := toks[r.Intn(len(toks))]
		p := t.Range.Start.Byte
		if r.Chance(1, 2) {
			p = t.Range.End.Byte
		}
		if p < 0 || p > len(out) {
			continue
		}
		ins := r.Pick(buildInserts)
		out = append(out[:p], append([]byte(ins), out[p:]...)...)
		toks, _ = hclsyntax.LexConfig(out, "", hcl.InitialPos)
	}
	return out
}

// corrBuild drives the loader model and hclwrite.ParseConfig with the same generated configurations.
func corrBuild(cx *lib.Ctx) {
	if !cx.HasModel() {
		return
	}
	for _, s := range handCorpus {
		corrBuildOne(cx, []byte(s), "corpus")
	}
	R := cx.R.Fork()
	note := func(string) {}
	one := func(g *gen, exprs []*lib.Node, origin string) {
		src := []byte(corrBuildSource(g, exprs, note))
		corrBuildOne(cx, src, origin)
		r := g.r
		if r.Chance(1, 3) {
			corrBuildOne(cx, perturbLayout(r, src), "perturbed")
		}
		if r.Chance(1, 5) {
			corrBuildOne(cx, lib.MutateBytes(r, src), "mutated")
		}
	}
	// every traversal shape in every expression position
	reps := cx.Scale(2, 12)
	for rep := 0; rep < reps; rep++ {
		for pi := range positions {
			for _, sh := range shapes {
				r := R.Fork()
				g := &gen{r: r, eg: &lib.ExprGen{R: r}}
				one(g, []*lib.Node{g.place(g.trav(sh), pi, rep%3, note)}, "systematic")
			}
		}
	}
	// random bodies with traversals sprinkled over the variable leaves and a few placed expressions
	n := cx.Scale(3000, 40000)
	for i := 0; i < n; i++ {
		r := R.Fork()
		g := &gen{r: r, eg: &lib.ExprGen{R: r}}
		var extra []*lib.Node
		for k := r.Intn(3); k > 0; k-- {
			extra = append(extra, g.place(g.trav(r.Pick(shapes)), r.Intn(len(positions)), r.Intn(3), note))
		}
		one(g, extra, "random")
	}
}
