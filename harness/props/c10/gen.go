package c10

import (
	"fmt"
	"strings"

	"hx/lib"
)

// gen builds configurations whose expressions carry every traversal shape in every expression position.
type gen struct {
	r  *lib.Rand
	eg *lib.ExprGen
}

// shapes are the traversal step kinds the property enumerates.
var shapes = []string{"root", "attr", "idx-str", "idx-num", "idx-bool", "idx-null", "legacy", "fsplat", "asplat", "mixed"}

var stepKinds = []string{"attr", "idx-str", "idx-num", "idx-bool", "idx-null", "legacy", "fsplat", "asplat"}
var plainStepKinds = []string{"attr", "idx-str", "idx-num", "legacy", "attr", "idx-str"}

var keyStrings = []string{"k", "a b", "", "x\"y", "back\\slash", "n\nl", "${", "%{", "$", "100%", "a$b", "é", "日本", "𝄞", "#", "//", "/*", "]", "["}
var keyNums = []string{"0", "1", "7", "42", "1.5", "1e3", "0.25", "12345678901234567890123", "2E+2"}
var attrIdents = []string{"a", "b", "key", "for", "if", "in", "x-y", "null", "true", "k1", "each", "value"}
var rootVars = []string{"a", "b", "foo", "bar_1", "x-y", "v", "each", "in", "if", "true1", "null_", "var", "local", "module"}

func (g *gen) step(base *lib.Node, kind string) *lib.Node {
	if kind == "asplat" && underAttrSplat(base) {
		kind = "attr" // a splat inside an attribute-only splat is a syntax error
	}
	switch kind {
	case "attr":
		return &lib.Node{K: "attr", S: g.r.Pick(attrIdents), Kids: []*lib.Node{base}}
	case "idx-str":
		return &lib.Node{K: "index", Kids: []*lib.Node{base, {K: "str", S: g.r.Pick(keyStrings)}}}
	case "idx-num":
		return &lib.Node{K: "index", Kids: []*lib.Node{base, {K: "num", S: g.r.Pick(keyNums)}}}
	case "idx-bool":
		return &lib.Node{K: "index", Kids: []*lib.Node{base, {K: "bool", S: g.r.Pick([]string{"true", "false"})}}}
	case "idx-null":
		return &lib.Node{K: "index", Kids: []*lib.Node{base, {K: "null", S: "null"}}}
	case "legacy":
		return &lib.Node{K: "legacy", S: fmt.Sprintf("%d", g.r.Intn(12)), Kids: []*lib.Node{base}}
	case "fsplat":
		return &lib.Node{K: "fsplat", Kids: []*lib.Node{base}}
	case "asplat":
		return &lib.Node{K: "asplat", Kids: []*lib.Node{base}}
	}
	panic("unknown step kind " + kind)
}

// underAttrSplat: would a further step on n still belong to an attribute-only splat?
func underAttrSplat(n *lib.Node) bool {
	for n != nil {
		switch n.K {
		case "asplat":
			return true
		case "attr", "legacy":
			n = n.Kids[0]
		default:
			return false
		}
	}
	return false
}

// trav builds one traversal of the named shape: a root variable, a few plain steps, the step of
// interest, and a few steps after it (so that e.g. a splat is followed by attribute steps).
func (g *gen) trav(shape string) *lib.Node {
	n := &lib.Node{K: "var", S: g.r.Pick(rootVars)}
	if shape == "root" {
		return n
	}
	if shape == "mixed" {
		for i := 1 + g.r.Intn(5); i > 0; i-- {
			n = g.step(n, g.r.Pick(stepKinds))
		}
		return n
	}
	for i := g.r.Intn(3); i > 0; i-- {
		n = g.step(n, g.r.Pick(plainStepKinds))
	}
	n = g.step(n, shape)
	k := g.r.Intn(3)
	if (shape == "fsplat" || shape == "asplat") && k == 0 && g.r.Chance(2, 3) {
		k = 1
	}
	for i := k; i > 0; i-- {
		n = g.step(n, g.r.Pick(plainStepKinds))
	}
	return n
}

// rootOf is the root variable name of a traversal node.
func rootOf(t *lib.Node) string {
	for t != nil && t.K != "var" && len(t.Kids) > 0 {
		t = t.Kids[0]
	}
	if t != nil && t.K == "var" {
		return t.S
	}
	return "fv"
}

func (g *gen) filler() *lib.Node { return g.eg.Expr(g.r.Intn(2)) }

func tlit(s string) *lib.Node { return &lib.Node{K: "tlit", S: s} }

// plain renders an expression canonically (single spaces), for embedding into raw heredoc text.
func plain(n *lib.Node) string {
	var toks []lib.Tk
	(&lib.Renderer{}).Expr(&toks, n)
	parts := make([]string, len(toks))
	for i, t := range toks {
		parts[i] = t.Text
	}
	return strings.Join(parts, " ")
}

type position struct {
	name string
	f    func(g *gen, t *lib.Node) *lib.Node
}

// positions are the expression positions a traversal can occupy. heredoc positions produce a "raw"
// node that must end a line, so they are only used at the top of an attribute value or as a tuple / call element.
var positions = []position{
	{"value", func(g *gen, t *lib.Node) *lib.Node { return t }},
	{"paren", func(g *gen, t *lib.Node) *lib.Node { return &lib.Node{K: "paren", Kids: []*lib.Node{t}} }},
	{"call-arg", func(g *gen, t *lib.Node) *lib.Node {
		n := &lib.Node{K: "call", S: g.r.Pick(lib.DefaultFuncs)}
		if g.r.Chance(1, 2) {
			n.Kids = append(n.Kids, g.filler())
		}
		n.Kids = append(n.Kids, t)
		if g.r.Chance(1, 2) {
			n.Kids = append(n.Kids, g.filler())
		}
		return n
	}},
	{"call-expand", func(g *gen, t *lib.Node) *lib.Node {
		n := &lib.Node{K: "call", S: g.r.Pick(lib.DefaultFuncs), Flag: true}
		if g.r.Chance(1, 2) {
			n.Kids = append(n.Kids, g.filler())
		}
		n.Kids = append(n.Kids, t)
		return n
	}},
	{"tuple", func(g *gen, t *lib.Node) *lib.Node {
		n := &lib.Node{K: "tuple"}
		if g.r.Chance(1, 2) {
			n.Kids = append(n.Kids, g.filler())
		}
		n.Kids = append(n.Kids, t)
		if g.r.Chance(1, 2) {
			n.Kids = append(n.Kids, g.filler())
		}
		return n
	}},
	{"obj-key", func(g *gen, t *lib.Node) *lib.Node {
		n := &lib.Node{K: "object", Kids: []*lib.Node{{K: "paren", Kids: []*lib.Node{t}}, g.filler()}}
		if g.r.Chance(1, 2) {
			n.Kids = append(n.Kids, &lib.Node{K: "ident", S: "z"}, g.filler())
		}
		return n
	}},
	{"obj-val", func(g *gen, t *lib.Node) *lib.Node {
		n := &lib.Node{K: "object"}
		if g.r.Chance(1, 2) {
			n.Kids = append(n.Kids, &lib.Node{K: "ident", S: "a"}, g.filler())
		}
		n.Kids = append(n.Kids, &lib.Node{K: "ident", S: g.r.Pick([]string{"k", "if", "in", "x-y"})}, t)
		if g.r.Chance(1, 2) {
			n.Kids = append(n.Kids, &lib.Node{K: "str", S: "q r"}, g.filler())
		}
		return n
	}},
	{"tmpl-interp", func(g *gen, t *lib.Node) *lib.Node {
		p := &lib.Node{K: "interp", Kids: []*lib.Node{t}}
		if g.r.Chance(1, 5) {
			p.S = "~"
		}
		if g.r.Chance(1, 5) {
			p.S2 = "~"
		}
		n := &lib.Node{K: "tmpl"}
		if g.r.Chance(2, 3) {
			n.Kids = append(n.Kids, tlit(g.r.Pick([]string{"pre ", "x\"y", "$ ", "é "})))
		}
		n.Kids = append(n.Kids, p)
		if g.r.Chance(2, 3) {
			n.Kids = append(n.Kids, tlit(g.r.Pick([]string{" post", "%", "\n", "日本"})))
		}
		return n
	}},
	{"tmpl-if", func(g *gen, t *lib.Node) *lib.Node {
		p := &lib.Node{K: "tif", Kids: []*lib.Node{t, {K: "tmpl", Kids: []*lib.Node{tlit("yes")}}}}
		if g.r.Chance(1, 2) {
			p.Kids = append(p.Kids, &lib.Node{K: "tmpl", Kids: []*lib.Node{tlit("no")}})
		}
		return &lib.Node{K: "tmpl", Kids: []*lib.Node{p}}
	}},
	{"tmpl-for", func(g *gen, t *lib.Node) *lib.Node {
		body := &lib.Node{K: "tmpl", Kids: []*lib.Node{{K: "interp", Kids: []*lib.Node{{K: "var", S: "tv"}}}, tlit(",")}}
		p := &lib.Node{K: "tfor", S: "tv", Kids: []*lib.Node{t, body}}
		if g.r.Chance(1, 3) {
			p.S2 = "tk"
		}
		return &lib.Node{K: "tmpl", Kids: []*lib.Node{tlit("["), p, tlit("]")}}
	}},
	{"tmpl-for-body", func(g *gen, t *lib.Node) *lib.Node {
		body := &lib.Node{K: "tmpl", Kids: []*lib.Node{{K: "interp", Kids: []*lib.Node{t}}}}
		p := &lib.Node{K: "tfor", S: "tv", Kids: []*lib.Node{g.filler(), body}}
		return &lib.Node{K: "tmpl", Kids: []*lib.Node{p}}
	}},
	{"cond-c", func(g *gen, t *lib.Node) *lib.Node {
		return &lib.Node{K: "cond", Kids: []*lib.Node{t, g.filler(), g.filler()}}
	}},
	{"cond-t", func(g *gen, t *lib.Node) *lib.Node {
		return &lib.Node{K: "cond", Kids: []*lib.Node{g.filler(), t, g.filler()}}
	}},
	{"cond-f", func(g *gen, t *lib.Node) *lib.Node {
		return &lib.Node{K: "cond", Kids: []*lib.Node{g.filler(), g.filler(), t}}
	}},
	{"binop-l", func(g *gen, t *lib.Node) *lib.Node {
		return &lib.Node{K: "binop", S: g.r.Pick(binOps), Kids: []*lib.Node{t, g.filler()}}
	}},
	{"binop-r", func(g *gen, t *lib.Node) *lib.Node {
		return &lib.Node{K: "binop", S: g.r.Pick(binOps), Kids: []*lib.Node{g.filler(), t}}
	}},
	{"unop", func(g *gen, t *lib.Node) *lib.Node {
		return &lib.Node{K: "unop", S: g.r.Pick([]string{"-", "!"}), Kids: []*lib.Node{t}}
	}},
	{"for-coll", func(g *gen, t *lib.Node) *lib.Node {
		n := &lib.Node{K: "fortuple", S: "fv", Kids: []*lib.Node{t, {K: "var", S: "fv"}}}
		if g.r.Chance(1, 4) {
			// the iterator carries the name of the variable the collection is taken from: inside the
			// collection expression the name still means the outer variable
			n.S = rootOf(t)
			n.Kids[1] = &lib.Node{K: "var", S: n.S}
		}
		if g.r.Chance(1, 2) {
			n.S2 = "fk"
		}
		return n
	}},
	{"for-val", func(g *gen, t *lib.Node) *lib.Node {
		n := &lib.Node{K: "fortuple", S: "fv", Kids: []*lib.Node{g.filler(), t}}
		if g.r.Chance(1, 2) {
			n.S2 = "fk"
		}
		return n
	}},
	{"for-cond", func(g *gen, t *lib.Node) *lib.Node {
		return &lib.Node{K: "fortuple", S: "fv", Kids: []*lib.Node{g.filler(), {K: "var", S: "fv"}, t}}
	}},
	{"forobj-coll", func(g *gen, t *lib.Node) *lib.Node {
		n := &lib.Node{K: "forobj", S: "fv", S2: "fk", Kids: []*lib.Node{t, {K: "var", S: "fk"}, {K: "var", S: "fv"}}}
		if g.r.Chance(1, 4) {
			n.S = rootOf(t)
			n.Kids[2] = &lib.Node{K: "var", S: n.S}
		}
		return n
	}},
	{"forobj-key", func(g *gen, t *lib.Node) *lib.Node {
		return &lib.Node{K: "forobj", S: "fv", Kids: []*lib.Node{g.filler(), t, {K: "var", S: "fv"}}, Flag: g.r.Chance(1, 3)}
	}},
	{"forobj-val", func(g *gen, t *lib.Node) *lib.Node {
		n := &lib.Node{K: "forobj", S: "fv", S2: "fk", Kids: []*lib.Node{g.filler(), {K: "var", S: "fk"}, t}, Flag: g.r.Chance(1, 3)}
		if g.r.Chance(1, 3) {
			n.Kids = append(n.Kids, g.filler())
		}
		return n
	}},
	{"index-key", func(g *gen, t *lib.Node) *lib.Node {
		return &lib.Node{K: "index", Kids: []*lib.Node{{K: "var", S: g.r.Pick(rootVars)}, t}}
	}},
	{"index-coll", func(g *gen, t *lib.Node) *lib.Node {
		return &lib.Node{K: "index", Kids: []*lib.Node{{K: "paren", Kids: []*lib.Node{t}}, g.filler()}}
	}},
	{"splat-source", func(g *gen, t *lib.Node) *lib.Node {
		k := "fsplat"
		if g.r.Chance(1, 2) {
			k = "asplat"
		}
		return &lib.Node{K: "attr", S: "id", Kids: []*lib.Node{{K: k, Kids: []*lib.Node{{K: "paren", Kids: []*lib.Node{t}}}}}}
	}},
	{"rel-source", func(g *gen, t *lib.Node) *lib.Node {
		c := &lib.Node{K: "call", S: "f", Kids: []*lib.Node{t}}
		return g.step(g.step(c, g.r.Pick(stepKinds)), g.r.Pick(plainStepKinds))
	}},
	{"heredoc", func(g *gen, t *lib.Node) *lib.Node {
		open, ind := "<<EOT", ""
		if g.r.Chance(1, 2) {
			open, ind = "<<-EOT", "    "
		}
		pre := g.r.Pick([]string{"", "hello ", "  indented ", "$ ", "\"q\" "})
		post := g.r.Pick([]string{"", " world", "%", " # not a comment"})
		more := g.r.Pick([]string{"", ind + "second line\n", ind + "%{ if " + plain(g.filler()) + " }x%{ endif }\n"})
		return &lib.Node{K: "raw", S: open + "\n" + ind + pre + "${" + plain(t) + "}" + post + "\n" + more + ind + "EOT\n"}
	}},
}

var binOps = []string{"||", "&&", "==", "!=", "<", "<=", ">", ">=", "+", "-", "*", "/", "%"}

var posIndex = func() map[string]int {
	m := map[string]int{}
	for i, p := range positions {
		m[p.name] = i
	}
	return m
}()

// place puts traversal t into position pi, and (depth>0) nests the result into further positions.
// A heredoc can only be nested in a tuple or call, or stand as the whole value.
func (g *gen) place(t *lib.Node, pi int, depth int, note func(string)) *lib.Node {
	p := positions[pi]
	note("pos:" + p.name)
	n := p.f(g, t)
	for ; depth > 0; depth-- {
		var q position
		if n.K == "raw" {
			q = positions[posIndex[g.r.Pick([]string{"tuple", "call-arg"})]]
		} else {
			q = positions[g.r.Intn(len(positions))]
			if q.name == "heredoc" && depth > 1 {
				continue
			}
		}
		note("outer:" + q.name)
		n = q.f(g, n)
	}
	return n
}

// sprinkle replaces variable leaves of a random expression tree by traversals of random shapes.
func (g *gen) sprinkle(n *lib.Node, note func(string)) {
	for i, k := range n.Kids {
		if k.K == "var" && g.r.Chance(1, 2) && !(n.K == "tuple" && i == 0) {
			s := g.r.Pick(shapes)
			note("shape:" + s)
			n.Kids[i] = g.trav(s)
			continue
		}
		g.sprinkle(k, note)
	}
}

var commentLines = []string{"# c\n", "// c\n", "#\n", "# é 日本\n", "//x = 1\n", "/* m\n   l */", "/* c */", "# a\n# b\n"}

// decorate inserts whole-line comments after required newlines (lead-comment position of the next
// item, end of a body, end of the file) and at the start of the file.
func (g *gen) decorate(toks []lib.Tk, chance int) []lib.Tk {
	var out []lib.Tk
	add := func() {
		c := g.r.Pick(commentLines)
		out = append(out, lib.Tk{Text: c})
		if !strings.HasSuffix(c, "\n") {
			if g.r.Chance(1, 2) {
				out = append(out, lib.Tk{NL: true})
			}
		} else if g.r.Chance(1, 6) {
			out = append(out, lib.Tk{NL: true}) // blank line: detaches the comment from the next item
		}
	}
	if g.r.Intn(100) < chance {
		add()
	}
	for _, t := range toks {
		out = append(out, t)
		if t.NL && g.r.Intn(100) < chance {
			add()
		}
	}
	return out
}
