package c01

import (
	"fmt"
	"regexp"
	"sort"
	"strings"

	"github.com/hashicorp/hcl/v2"
	"github.com/hashicorp/hcl/v2/hclsyntax"
	"github.com/zclconf/go-cty/cty"

	"hx/lib"
)

func init() { lib.Register("C01", run) }

// a newline (possibly with a comment) between "[" and "*" or between "*" and "]"
var splatNewline = regexp.MustCompile(`\[[ \t]*(/\*[^*]*\*/[ \t]*)*(#[^\n]*|//[^\n]*)?\r?\n[^\]]*\*|\*[ \t]*(/\*[^*]*\*/[ \t]*)*(#[^\n]*|//[^\n]*)?\r?\n\s*\]`)

type evalRes struct {
	val string
	err bool
}

func evalExpr(cx *lib.Ctx, e hclsyntax.Expression, sc *Scope, src string) (evalRes, bool) {
	var res evalRes
	ok := cx.Guard("eval", src, func() {
		ctx := &hcl.EvalContext{Variables: sc.Vars, Functions: Funcs()}
		v, diags := e.Value(ctx)
		res = evalRes{val: lib.DumpValuePlain(v), err: diags.HasErrors()}
	})
	return res, ok
}

// splitDump splits "<sexp> <status> ..." at the end of the first s-expression.
func splitDump(ans string) (string, string) {
	depth := 0
	for i, c := range ans {
		switch c {
		case '(':
			depth++
		case ')':
			depth--
		case ' ':
			if depth == 0 {
				rest := strings.SplitN(ans[i+1:], " ", 2)
				return ans[:i], rest[0]
			}
		}
	}
	return ans, ""
}

func run(cx *lib.Ctx) {
	res := cx.Res
	res.Rule = "type-directed expression trees (target type chosen first; 1 in 12 sub-expressions deliberately ill-typed) over scopes of every modelled cty kind, each rendered in 3 layouts (spacing, comments, newlines inside brackets, redundant parentheses) and parsed by the real parser; non-trivial = the evaluation is error-free and the tree has at least 3 nodes; distinct by canonical source + scope"
	if cx.Replay != "" {
		replay(cx, lib.ReplayInput(cx.Replay))
		return
	}
	n := cx.Scale(6000, 300000)
	stats := map[string]int{}
	for i := 0; i < n; i++ {
		r := cx.R.Fork()
		mode := r.Intn(10)
		sc := GenScope(r, mode >= 5 && mode <= 7, mode >= 7)
		g := &TypedGen{R: r, S: sc, Stats: stats}
		tree := g.Gen("any", 2+r.Intn(3))
		one(cx, r, tree, sc, i < 4)
	}
	for k, v := range stats {
		res.Distribution["gen:"+k] = v
	}
	// directed: for expressions over collections with no element, whose `if` clause is wrong as a whole (null,
	// not a bool, not evaluable) — the clause is checked even when there is nothing to filter — or fine
	{
		r := cx.R.Fork()
		v := func(n string) *lib.Node { return &lib.Node{K: "var", S: n} }
		colls := []*lib.Node{{K: "tuple"}, {K: "object"}, v("none"), v("nomap"), v("some")}
		conds := []*lib.Node{{K: "null"}, {K: "str", S: "yes"}, {K: "num", S: "1"}, v("enabled"), v("undefined_name"), {K: "bool", S: "true"}, {K: "tuple"},
			{K: "binop", S: "==", Kids: []*lib.Node{v("x"), {K: "null"}}}}
		for _, coll := range colls {
			for _, cond := range conds {
				sc := GenScope(r, false, false)
				sc.Vars["none"] = cty.ListValEmpty(cty.String)
				sc.Vars["nomap"] = cty.MapValEmpty(cty.Number)
				sc.Vars["some"] = cty.ListVal([]cty.Value{cty.StringVal("a")})
				sc.Vars["enabled"] = cty.NullVal(cty.Bool)
				one(cx, r, &lib.Node{K: "fortuple", S: "x", Kids: []*lib.Node{coll, v("x"), cond}}, sc, false)
				one(cx, r, &lib.Node{K: "forobj", S: "x", S2: "k", Kids: []*lib.Node{coll, {K: "str", S: "key"}, v("x"), cond}, Flag: true}, sc, false)
				one(cx, r, &lib.Node{K: "forobj", S: "x", S2: "k", Kids: []*lib.Node{coll, {K: "tmpl", Kids: []*lib.Node{{K: "interp", Kids: []*lib.Node{v("k")}}}}, v("x"), cond}}, sc, false)
				res.Count("directed-for-over-nothing")
			}
		}
	}
	corrParseX(cx)
	heredocOracle(cx)
	stripOracle(cx)
	corrTemplate(cx)
}

type caseInput struct {
	Src   string `json:"src"`
	Scope string `json:"scope"`
}

func one(cx *lib.Ctx, r *lib.Rand, tree *lib.Node, sc *Scope, sample bool) {
	res := cx.Res
	rd := &lib.Renderer{R: r, ExtraParen: 8}
	var toks []lib.Tk
	rd.Expr(&toks, tree)
	canon := (&lib.Layout{}).Render(toks, true)
	input := fmt.Sprintf("%s\n-- scope: %s", canon, EnvSexp(sc.Vars))
	e0, diags := hclsyntax.ParseExpression([]byte(canon), "", hcl.InitialPos)
	if diags.HasErrors() {
		res.Count("gen-syntax-invalid")
		return
	}
	ast0, _ := ExprSexp(e0)
	r0, ok := evalExpr(cx, e0, sc, input)
	if !ok {
		return
	}
	// layout independence on the real code
	for k := 0; k < 2; k++ {
		lay := lib.RandomLayout(r)
		var toks2 []lib.Tk
		(&lib.Renderer{R: r, ExtraParen: 15}).Expr(&toks2, tree)
		src := lib.RenderChecked(toks2, lay)
		e1, d1 := hclsyntax.ParseExpression([]byte(src), "", hcl.InitialPos)
		if d1.HasErrors() {
			key := "layout:parse-error"
			if splatNewline.MatchString(src) {
				key = "layout:parse-error:newline-in-full-splat-brackets"
			}
			res.Fail(lib.Failure{Kind: "oracle", Key: key, Desc: "a re-layout of a valid expression does not parse: " + d1.Error(), Input: src, Impl: canon})
			continue
		}
		if a, _ := ExprSexp(e1); a != ast0 {
			res.Fail(lib.Failure{Kind: "oracle", Key: "layout:ast-differs", Desc: "two layouts of one expression parse to different trees", Input: src, Impl: canon + "\n" + ast0 + "\n" + a})
			continue
		}
		r1, ok := evalExpr(cx, e1, sc, src)
		if ok && r1 != r0 {
			res.Fail(lib.Failure{Kind: "oracle", Key: "layout:value-differs", Desc: "two layouts of one expression evaluate differently", Input: src, Impl: fmt.Sprintf("%v vs %v", r0, r1)})
		}
	}
	status := "ok"
	if r0.err {
		status = "err"
		res.Count("eval-error")
	} else {
		res.Count("eval-ok")
	}
	if len(sc.Flags) > 0 {
		res.Count("scope-abstracted-or-marked")
	}
	res.Case(input, !r0.err && tree.Size() >= 3)
	if sample {
		res.Sample(map[string]string{"src": canon, "value": r0.val, "status": status})
	}
	if !cx.HasModel() {
		return
	}
	// correspondence with the Lean evaluator
	sx, okx := ExprSexp(e0)
	if !okx {
		res.Count("model-unsupported-input")
		return
	}
	// VARS: the model's free variables vs the roots reported by Variables()
	{
		seen := map[string]bool{}
		var roots []string
		for _, tr := range e0.Variables() {
			if n := tr.RootName(); !seen[n] {
				seen[n] = true
				roots = append(roots, n)
			}
		}
		sort.Strings(roots)
		for i, n := range roots {
			roots[i] = lib.Hex(n)
		}
		want := cx.Ask("VARS " + sx)
		res.CorrChecked++
		if got := strings.Join(roots, " "); got != want {
			res.Fail(lib.Failure{Kind: "corr", Key: "VARS", Desc: "root names reported by Variables() differ from the model's fv", Input: input, Model: want, Impl: got})
		}
	}
	// self-tests of the theorem statements on the executable model (strict configuration)
	hasMark, hasUnk := false, false
	for _, f := range sc.Flags {
		if f == "marked" || f == "marked-nested" {
			hasMark = true
		}
		if f == "unknown" || f == "dyn" {
			hasUnk = true
		}
	}
	if hasMark {
		v2 := sc.Variant(r)
		a := cx.Ask("NI " + sx + " " + EnvSexp(sc.Vars) + " " + EnvSexp(v2.Vars))
		res.Count("model-NI:" + strings.SplitN(a, " ", 2)[0])
		if strings.HasPrefix(a, "VIOLATION") {
			res.Fail(lib.Failure{Kind: "corr", Key: "MODEL-NI", Desc: "the executable model violates the noninterference statement (theorem C06 would be false)", Input: input + "\n-- scope2: " + EnvSexp(v2.Vars), Model: a})
		}
	}
	if hasUnk {
		cc := sc.Concrete()
		a := cx.Ask("CONC " + sx + " " + EnvSexp(cc.Vars) + " " + EnvSexp(sc.Vars))
		res.Count("model-CONC:" + strings.SplitN(a, " ", 2)[0])
		if strings.HasPrefix(a, "VIOLATION") {
			res.Fail(lib.Failure{Kind: "corr", Key: "MODEL-CONC", Desc: "the executable model violates the abstraction-soundness statement (theorem C05 would be false)", Input: input + "\n-- concrete: " + EnvSexp(cc.Vars), Model: a})
		}
	}
	ans := cx.Ask("EVAL " + sx + " " + EnvSexp(sc.Vars))
	mval, mstatus := splitDump(ans)
	switch mstatus {
	case "unsupported", "unsupported-input":
		res.Count("model-" + mstatus)
		return
	case "ok", "err":
	default:
		res.Fail(lib.Failure{Kind: "corr", Key: "EVAL:bad-answer", Desc: "model answered " + lib.Trunc(ans, 200), Input: input})
		return
	}
	res.CorrChecked++
	if mstatus != status {
		res.Fail(lib.Failure{Kind: "corr", Key: "EVAL:status:model-" + mstatus + "-impl-" + status, Desc: "error/no-error outcome differs", Input: input, Model: ans, Impl: r0.val})
		return
	}
	if status == "ok" && mval != r0.val {
		res.Fail(lib.Failure{Kind: "corr", Key: "EVAL:value", Desc: "values differ", Input: input, Model: mval, Impl: r0.val})
		return
	}
	// EVALSRC: the same comparison with the model fed from the generator's tree instead of the parsed tree, so
	// that what the parser makes of the source (template directives, unwrapping, literal keys, legacy index) is
	// part of what is compared
	nsx, okn := NodeModelSexp(tree)
	if !okn {
		res.Count("evalsrc-unsupported-node")
		return
	}
	if nsx == sx {
		res.Count("evalsrc-same-tree")
		return
	}
	res.Count("evalsrc-different-tree")
	ans2 := cx.Ask("EVAL " + nsx + " " + EnvSexp(sc.Vars))
	mval2, mstatus2 := splitDump(ans2)
	if mstatus2 != "ok" && mstatus2 != "err" {
		res.Count("evalsrc-model-" + mstatus2)
		return
	}
	res.CorrChecked++
	if mstatus2 != status {
		res.Fail(lib.Failure{Kind: "corr", Key: "EVALSRC:status:spec-" + mstatus2 + "-impl-" + status, Desc: "the source evaluates with a different error/no-error outcome than the specification's reading of it", Input: input, Model: ans2 + "\n" + nsx, Impl: r0.val + "\n" + sx})
		return
	}
	if status == "ok" && mval2 != r0.val {
		res.Fail(lib.Failure{Kind: "corr", Key: "EVALSRC:value", Desc: "the source evaluates to a different value than the specification's reading of it", Input: input, Model: mval2 + "\n" + nsx, Impl: r0.val + "\n" + sx})
	}
}

func replay(cx *lib.Ctx, input string) {
	cx.Res.Notes = append(cx.Res.Notes, "replay of generated cases needs the seed; re-run with VERIF_SEED from the replay file")
	cx.Res.Case(input, true)
	cx.Res.Sample(input)
}
