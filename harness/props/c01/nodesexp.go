package c01

import (
	"strings"

	"github.com/hashicorp/hcl/v2/hclsyntax"
	"github.com/zclconf/go-cty/cty"

	"hx/lib"
)

// NodeModelSexp translates the generator's own tree — not the tree the real parser built — into the
// expression language of the Lean evaluator, following the specification's reading of the syntax: a quoted
// template is the concatenation of its parts unless it consists of a single interpolation (unwrapping);
// `%{if c}A%{else}B%{endif}` is a conditional between the two sub-templates, each of which always produces a
// string; `%{for k, v in coll}A%{endfor}` is the concatenation of A's results; a bare identifier as an object
// key is a literal name; `a.0` is an index. The EVALSRC comparison (source text → real parser → real
// evaluator, against tree → model) therefore covers the parser's desugaring too, which EVAL (the model fed
// from the parsed tree) cannot see.
func NodeModelSexp(n *lib.Node) (string, bool) {
	t := &nodeTr{ok: true}
	s := t.expr(n)
	return s, t.ok
}

type nodeTr struct{ ok bool }

var nodeOps = map[string]*hclsyntax.Operation{
	"||": hclsyntax.OpLogicalOr, "&&": hclsyntax.OpLogicalAnd, "==": hclsyntax.OpEqual, "!=": hclsyntax.OpNotEqual,
	"<": hclsyntax.OpLessThan, "<=": hclsyntax.OpLessThanOrEqual, ">": hclsyntax.OpGreaterThan, ">=": hclsyntax.OpGreaterThanOrEqual,
	"+": hclsyntax.OpAdd, "-": hclsyntax.OpSubtract, "*": hclsyntax.OpMultiply, "/": hclsyntax.OpDivide, "%": hclsyntax.OpModulo,
}

func strLit(s string) string { return "(lit (str " + lib.Hex(s) + "))" }

// template renders the parts of a (sub-)template; unwrap: a template that is exactly one interpolation is
// that expression (only at the level of a whole quoted template, never for directive bodies)
func (t *nodeTr) template(n *lib.Node, unwrap bool) string {
	if unwrap && len(n.Kids) == 1 && n.Kids[0].K == "interp" {
		p := n.Kids[0]
		if p.S != "" || p.S2 != "" {
			t.ok = false
		}
		return t.expr(p.Kids[0])
	}
	var sb strings.Builder
	sb.WriteString("(template")
	for _, p := range n.Kids {
		sb.WriteString(" ")
		switch p.K {
		case "tlit":
			sb.WriteString(strLit(p.S))
		case "interp":
			if p.S != "" || p.S2 != "" || len(p.Sep) > 0 {
				t.ok = false // strip markers: covered by the strip-marker oracle
			}
			sb.WriteString(t.expr(p.Kids[0]))
		case "tif":
			if len(p.Sep) > 0 {
				t.ok = false
			}
			els := strLit("")
			if len(p.Kids) > 2 {
				els = t.template(p.Kids[2], false)
			}
			sb.WriteString("(cond " + t.expr(p.Kids[0]) + " " + t.template(p.Kids[1], false) + " " + els + ")")
		case "tfor":
			if len(p.Sep) > 0 {
				t.ok = false
			}
			sb.WriteString("(tjoin (fortuple " + lib.Hex(p.S2) + " " + lib.Hex(p.S) + " " + t.expr(p.Kids[0]) + " " + t.template(p.Kids[1], false) + " nil))")
		default:
			t.ok = false
		}
	}
	sb.WriteString(")")
	return sb.String()
}

func (t *nodeTr) expr(n *lib.Node) string {
	switch n.K {
	case "num":
		v, err := cty.ParseNumberVal(n.S)
		if err != nil {
			t.ok = false
			return "(lit (null dyn))"
		}
		return "(lit " + lib.DumpValuePlain(v) + ")"
	case "bool":
		return "(lit " + lib.DumpValuePlain(cty.BoolVal(n.S == "true")) + ")"
	case "null":
		return "(lit " + lib.DumpValuePlain(cty.NullVal(cty.DynamicPseudoType)) + ")"
	case "var":
		switch n.S {
		case "true", "false", "null":
			t.ok = false
		}
		return "(var " + lib.Hex(n.S) + ")"
	case "str":
		if n.S == "" {
			return "(template)"
		}
		return "(template " + strLit(n.S) + ")"
	case "tmpl":
		return t.template(n, true)
	case "paren":
		return t.expr(n.Kids[0])
	case "attr":
		return "(getattr " + t.expr(n.Kids[0]) + " " + lib.Hex(n.S) + ")"
	case "legacy":
		v, err := cty.ParseNumberVal(n.S)
		if err != nil {
			t.ok = false
			return "(lit (null dyn))"
		}
		return "(index " + t.expr(n.Kids[0]) + " (lit " + lib.DumpValuePlain(v) + "))"
	case "index":
		return "(index " + t.expr(n.Kids[0]) + " " + t.expr(n.Kids[1]) + ")"
	case "call":
		args := n.Kids
		ex := "nil"
		if n.Flag && len(args) > 0 {
			ex = t.expr(args[len(args)-1])
			args = args[:len(args)-1]
		}
		parts := make([]string, len(args))
		for i, a := range args {
			parts[i] = t.expr(a)
		}
		return "(call " + lib.Hex(n.S) + " (" + strings.Join(parts, " ") + ") " + ex + ")"
	case "binop":
		op, ok := nodeOps[n.S]
		if !ok {
			t.ok = false
			return "(lit (null dyn))"
		}
		return "(binop " + hclsyntax.VerifOpName(op) + " " + t.expr(n.Kids[0]) + " " + t.expr(n.Kids[1]) + ")"
	case "unop":
		op := hclsyntax.OpLogicalNot
		if n.S == "-" {
			op = hclsyntax.OpNegate
		} else if n.S != "!" {
			t.ok = false
		}
		return "(unop " + hclsyntax.VerifOpName(op) + " " + t.expr(n.Kids[0]) + ")"
	case "cond":
		return "(cond " + t.expr(n.Kids[0]) + " " + t.expr(n.Kids[1]) + " " + t.expr(n.Kids[2]) + ")"
	case "tuple":
		var sb strings.Builder
		sb.WriteString("(tuple")
		for _, a := range n.Kids {
			sb.WriteString(" " + t.expr(a))
		}
		sb.WriteString(")")
		return sb.String()
	case "object":
		var sb strings.Builder
		sb.WriteString("(object")
		for i := 0; i+1 < len(n.Kids); i += 2 {
			k := n.Kids[i]
			var ks string
			switch k.K {
			case "ident":
				ks = strLit(k.S)
			default:
				ks = t.expr(k)
			}
			sb.WriteString(" (" + ks + " " + t.expr(n.Kids[i+1]) + ")")
		}
		sb.WriteString(")")
		return sb.String()
	case "fortuple":
		cond := "nil"
		if len(n.Kids) > 2 {
			cond = t.expr(n.Kids[2])
		}
		return "(fortuple " + lib.Hex(n.S2) + " " + lib.Hex(n.S) + " " + t.expr(n.Kids[0]) + " " + t.expr(n.Kids[1]) + " " + cond + ")"
	case "forobj":
		cond := "nil"
		if len(n.Kids) > 3 {
			cond = t.expr(n.Kids[3])
		}
		grp := "false"
		if n.Flag {
			grp = "true"
		}
		return "(forobject " + lib.Hex(n.S2) + " " + lib.Hex(n.S) + " " + grp + " " + t.expr(n.Kids[0]) + " " + t.expr(n.Kids[1]) + " " + t.expr(n.Kids[2]) + " " + cond + ")"
	}
	t.ok = false
	return "(lit (null dyn))"
}
