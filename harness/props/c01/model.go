// Package c01: expression evaluation vs the Lean evaluator model (EVAL correspondence) and the
// layout-independence oracle.
package c01

import (
	"fmt"
	"sort"
	"strings"

	"github.com/hashicorp/hcl/v2"
	"github.com/hashicorp/hcl/v2/hclsyntax"
	"github.com/zclconf/go-cty/cty"
	"github.com/zclconf/go-cty/cty/function"

	"hx/lib"
)

// ExprSexp translates a parsed native expression into the model's expression language.
// ok=false when the tree contains a node the model has no counterpart for.
func ExprSexp(e hclsyntax.Expression) (string, bool) {
	t := &exprTr{anon: map[*hclsyntax.AnonSymbolExpr]string{}, ok: true}
	var sb strings.Builder
	t.expr(&sb, e)
	return sb.String(), t.ok
}

type exprTr struct {
	anon map[*hclsyntax.AnonSymbolExpr]string
	ok   bool
}

func (t *exprTr) traversal(sb *strings.Builder, base string, steps hcl.Traversal) {
	// base is the already rendered source expression; wrap it step by step
	cur := base
	for _, s := range steps {
		switch st := s.(type) {
		case hcl.TraverseAttr:
			cur = "(getattr " + cur + " " + lib.Hex(st.Name) + ")"
		case hcl.TraverseIndex:
			cur = "(index " + cur + " (lit " + lib.DumpValuePlain(st.Key) + "))"
		default:
			t.ok = false
		}
	}
	sb.WriteString(cur)
}

func (t *exprTr) sub(e hclsyntax.Expression) string {
	var sb strings.Builder
	t.expr(&sb, e)
	return sb.String()
}

func (t *exprTr) opt(e hclsyntax.Expression) string {
	if e == nil {
		return "nil"
	}
	return t.sub(e)
}

func (t *exprTr) expr(sb *strings.Builder, e hclsyntax.Expression) {
	switch x := e.(type) {
	case *hclsyntax.ParenthesesExpr:
		t.expr(sb, x.Expression)
	case *hclsyntax.TemplateWrapExpr:
		t.expr(sb, x.Wrapped)
	case *hclsyntax.LiteralValueExpr:
		sb.WriteString("(lit " + lib.DumpValuePlain(x.Val) + ")")
	case *hclsyntax.ScopeTraversalExpr:
		if len(x.Traversal) == 0 {
			t.ok = false
			return
		}
		root, isRoot := x.Traversal[0].(hcl.TraverseRoot)
		if !isRoot {
			t.ok = false
			return
		}
		t.traversal(sb, "(var "+lib.Hex(root.Name)+")", x.Traversal[1:])
	case *hclsyntax.RelativeTraversalExpr:
		t.traversal(sb, t.sub(x.Source), x.Traversal)
	case *hclsyntax.IndexExpr:
		sb.WriteString("(index " + t.sub(x.Collection) + " " + t.sub(x.Key) + ")")
	case *hclsyntax.FunctionCallExpr:
		args := x.Args
		ex := "nil"
		if x.ExpandFinal && len(args) > 0 {
			ex = t.sub(args[len(args)-1])
			args = args[:len(args)-1]
		}
		sb.WriteString("(call " + lib.Hex(x.Name) + " (")
		for i, a := range args {
			if i > 0 {
				sb.WriteString(" ")
			}
			t.expr(sb, a)
		}
		sb.WriteString(") " + ex + ")")
	case *hclsyntax.ConditionalExpr:
		sb.WriteString("(cond " + t.sub(x.Condition) + " " + t.sub(x.TrueResult) + " " + t.sub(x.FalseResult) + ")")
	case *hclsyntax.BinaryOpExpr:
		sb.WriteString("(binop " + hclsyntax.VerifOpName(x.Op) + " " + t.sub(x.LHS) + " " + t.sub(x.RHS) + ")")
	case *hclsyntax.UnaryOpExpr:
		sb.WriteString("(unop " + hclsyntax.VerifOpName(x.Op) + " " + t.sub(x.Val) + ")")
	case *hclsyntax.TupleConsExpr:
		sb.WriteString("(tuple")
		for _, a := range x.Exprs {
			sb.WriteString(" ")
			t.expr(sb, a)
		}
		sb.WriteString(")")
	case *hclsyntax.ObjectConsExpr:
		sb.WriteString("(object")
		for _, it := range x.Items {
			sb.WriteString(" (" + t.sub(it.KeyExpr) + " " + t.sub(it.ValueExpr) + ")")
		}
		sb.WriteString(")")
	case *hclsyntax.ObjectConsKeyExpr:
		if !x.ForceNonLiteral {
			if tr, isTr := x.Wrapped.(*hclsyntax.ScopeTraversalExpr); isTr && len(tr.Traversal) > 1 {
				// "Ambiguous attribute key": an error and cty.DynamicVal; the model's unknown function does the same
				sb.WriteString("(call " + lib.Hex("%ambiguous-attribute-key") + " () nil)")
				return
			}
			if kw := hcl.ExprAsKeyword(x.Wrapped); kw != "" {
				sb.WriteString("(lit (str " + lib.Hex(kw) + "))")
				return
			}
		}
		t.expr(sb, x.Wrapped)
	case *hclsyntax.ForExpr:
		if x.KeyExpr == nil {
			sb.WriteString("(fortuple " + lib.Hex(x.KeyVar) + " " + lib.Hex(x.ValVar) + " " + t.sub(x.CollExpr) + " " + t.sub(x.ValExpr) + " " + t.opt(x.CondExpr) + ")")
		} else {
			sb.WriteString(fmt.Sprintf("(forobject %s %s %v %s %s %s %s)", lib.Hex(x.KeyVar), lib.Hex(x.ValVar), x.Group, t.sub(x.CollExpr), t.sub(x.KeyExpr), t.sub(x.ValExpr), t.opt(x.CondExpr)))
		}
	case *hclsyntax.SplatExpr:
		name := fmt.Sprintf("%%anon%d", len(t.anon))
		t.anon[x.Item] = name
		sb.WriteString("(splat " + lib.Hex(name) + " " + t.sub(x.Source) + " " + t.sub(x.Each) + ")")
	case *hclsyntax.AnonSymbolExpr:
		name, found := t.anon[x]
		if !found {
			t.ok = false
			return
		}
		sb.WriteString("(var " + lib.Hex(name) + ")")
	case *hclsyntax.TemplateExpr:
		sb.WriteString("(template")
		for _, p := range x.Parts {
			sb.WriteString(" ")
			t.expr(sb, p)
		}
		sb.WriteString(")")
	case *hclsyntax.TemplateJoinExpr:
		sb.WriteString("(tjoin " + t.sub(x.Tuple) + ")")
	default:
		t.ok = false
	}
}

// EnvSexp renders a scope.
func EnvSexp(vars map[string]cty.Value) string {
	names := make([]string, 0, len(vars))
	for n := range vars {
		names = append(names, n)
	}
	sort.Strings(names)
	var sb strings.Builder
	sb.WriteString("(")
	for i, n := range names {
		if i > 0 {
			sb.WriteString(" ")
		}
		sb.WriteString("(" + lib.Hex(n) + " " + lib.DumpValuePlain(vars[n]) + ")")
	}
	sb.WriteString(")")
	return sb.String()
}

// Funcs is the function library shared with the Lean model (HclModel/Expr/Codec.lean: stdFuncs).
func Funcs() map[string]function.Function {
	num := func(n string) function.Parameter { return function.Parameter{Name: n, Type: cty.Number} }
	str := func(n string) function.Parameter { return function.Parameter{Name: n, Type: cty.String} }
	return map[string]function.Function{
		"add3": function.New(&function.Spec{
			Params: []function.Parameter{num("a"), num("b"), num("c")},
			Type:   function.StaticReturnType(cty.Number),
			Impl: func(args []cty.Value, _ cty.Type) (cty.Value, error) {
				return args[0].Add(args[1]).Add(args[2]), nil
			},
		}),
		"cat": function.New(&function.Spec{
			VarParam: &function.Parameter{Name: "s", Type: cty.String},
			Type:     function.StaticReturnType(cty.String),
			Impl: func(args []cty.Value, _ cty.Type) (cty.Value, error) {
				var sb strings.Builder
				for _, a := range args {
					sb.WriteString(a.AsString())
				}
				return cty.StringVal(sb.String()), nil
			},
		}),
		"ns::cat2": function.New(&function.Spec{
			Params: []function.Parameter{str("a"), str("b")},
			Type:   function.StaticReturnType(cty.String),
			Impl: func(args []cty.Value, _ cty.Type) (cty.Value, error) {
				return cty.StringVal(args[0].AsString() + args[1].AsString()), nil
			},
		}),
		"sumlist": function.New(&function.Spec{
			Params: []function.Parameter{{Name: "l", Type: cty.List(cty.Number)}},
			Type:   function.StaticReturnType(cty.Number),
			Impl: func(args []cty.Value, _ cty.Type) (cty.Value, error) {
				sum := cty.Zero
				for it := args[0].ElementIterator(); it.Next(); {
					_, v := it.Element()
					if !v.IsKnown() || v.IsNull() {
						return cty.UnknownVal(cty.Number), fmt.Errorf("unsupported element")
					}
					sum = sum.Add(v)
				}
				return sum, nil
			},
		}),
	}
}
