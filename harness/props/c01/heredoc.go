package c01

import (
	"fmt"
	"strings"

	"github.com/hashicorp/hcl/v2"
	"github.com/hashicorp/hcl/v2/hclsyntax"
	"github.com/zclconf/go-cty/cty"

	"hx/lib"
)

// heredocOracle: the value of a heredoc template (spec.md, "Templates").  A plain heredoc (`<<`) is its lines
// as written; a flush heredoc (`<<-`) has the minimum number of leading spaces over its non-blank lines removed
// from the start of every such line, where a line that begins with an interpolation has no leading spaces
// (so nothing is removed), a line of white space only is not counted and not changed, and the closing marker may
// be indented freely.  The expected string is computed here from the lines; the real parser and evaluator must
// produce it.
func heredocOracle(cx *lib.Ctx) {
	res := cx.Res
	R := cx.R.Fork()
	n := cx.Scale(1500, 60000)
	ctx := &hcl.EvalContext{Variables: map[string]cty.Value{"v": cty.StringVal("V"), "w": cty.StringVal("")}}
	for i := 0; i < n; i++ {
		r := R.Fork()
		flush := r.Chance(3, 4)
		type line struct {
			indent int
			parts  []string // alternating literal text / interpolation source
			interp []bool
		}
		var lines []line
		for k := 1 + r.Intn(5); k > 0; k-- {
			l := line{indent: r.Intn(4) * r.Intn(3)}
			switch r.Intn(7) {
			case 0:
				// blank (white space only)
			case 1:
				l.parts, l.interp = []string{"v"}, []bool{true}
			case 2:
				l.parts, l.interp = []string{"v", " tail"}, []bool{true, false}
			case 3:
				l.parts, l.interp = []string{"word", "v"}, []bool{false, true}
			case 4:
				l.parts, l.interp = []string{"w", "x"}, []bool{true, false}
			default:
				// (in a heredoc a backslash, a quote, a lone $ or % are ordinary characters)
				l.parts, l.interp = []string{r.Pick([]string{"Foo", "bar baz", "x", "- item", "\\", "a\\", "$\\", "%\\", "\\n", "100%", "a$b", "$", "%", "\"q\"", "\\\"", "c:\\dir\\", "\\$", "$\\$", "x \\ y"})}, []bool{false}
			}
			lines = append(lines, l)
		}
		// source
		var sb strings.Builder
		if flush {
			sb.WriteString("<<-EOT\n")
		} else {
			sb.WriteString("<<EOT\n")
		}
		for _, l := range lines {
			sb.WriteString(strings.Repeat(" ", l.indent))
			for j, p := range l.parts {
				if l.interp[j] {
					sb.WriteString("${" + p + "}")
				} else {
					sb.WriteString(p)
				}
			}
			sb.WriteString("\n")
		}
		if flush {
			sb.WriteString(strings.Repeat(" ", r.Intn(5)))
		}
		sb.WriteString("EOT\n")
		src := sb.String()
		// expected value
		min := -1
		if flush {
			for _, l := range lines {
				if len(l.parts) == 0 {
					continue // blank
				}
				lead := l.indent
				if l.interp[0] {
					// the line-leading literal, if any, is the indentation itself
					if l.indent == 0 {
						lead = 0
					}
				}
				if min < 0 || lead < min {
					min = lead
				}
			}
		}
		if min < 0 {
			min = 0
		}
		var want strings.Builder
		for _, l := range lines {
			ind := l.indent
			if len(l.parts) > 0 {
				ind -= min
			}
			want.WriteString(strings.Repeat(" ", ind))
			for j, p := range l.parts {
				if l.interp[j] {
					if p == "v" {
						want.WriteString("V")
					}
				} else {
					want.WriteString(p)
				}
			}
			want.WriteString("\n")
		}
		e, diags := hclsyntax.ParseExpression([]byte(src), "", hcl.InitialPos)
		res.Count(map[bool]string{true: "heredoc:flush", false: "heredoc:plain"}[flush])
		res.Evaluations++
		if diags.HasErrors() {
			res.Fail(lib.Failure{Kind: "oracle", Key: "heredoc:rejected", Desc: "a well-formed heredoc template is rejected: " + diags.Error(), Input: src})
			continue
		}
		got, vd := e.Value(ctx)
		if vd.HasErrors() || got.Type() != cty.String || !got.IsKnown() || got.IsNull() {
			res.Fail(lib.Failure{Kind: "oracle", Key: "heredoc:evaluation", Desc: "evaluating the heredoc failed: " + vd.Error(), Input: src})
			continue
		}
		if got.AsString() != want.String() {
			res.Fail(lib.Failure{Kind: "oracle", Key: fmt.Sprintf("heredoc:value-differs:flush=%v", flush),
				Desc:  "the heredoc's value is not its lines with the common indentation of the non-blank lines removed",
				Input: src, Impl: fmt.Sprintf("%q", got.AsString()), Model: fmt.Sprintf("%q", want.String())})
		}
	}
}
