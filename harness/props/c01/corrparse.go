package c01

import (
	"fmt"
	"strings"

	"github.com/hashicorp/hcl/v2"
	"github.com/hashicorp/hcl/v2/hclsyntax"

	"hx/lib"
)

// corrParseX ties the operator-precedence parser model (HclModel/Syntax/OpParser with the regenerated table) to
// hclsyntax.parseBinaryOps: the same chain of operands, binary operators and parentheses goes to both; the
// tree built (operators, association, parentheses kept) or the rejection is compared.
func corrParseX(cx *lib.Ctx) {
	if !cx.HasModel() {
		return
	}
	ops := hclsyntax.VerifBinaryOps()
	type op struct {
		tok  int
		text string
	}
	var table []op
	for _, o := range ops {
		t := o.Token
		var text string
		switch t {
		case hclsyntax.TokenOr:
			text = "||"
		case hclsyntax.TokenAnd:
			text = "&&"
		case hclsyntax.TokenEqualOp:
			text = "=="
		case hclsyntax.TokenNotEqual:
			text = "!="
		case hclsyntax.TokenLessThanEq:
			text = "<="
		case hclsyntax.TokenGreaterThanEq:
			text = ">="
		default:
			text = string(rune(o.Token))
		}
		table = append(table, op{int(o.Token), text})
	}
	if len(table) == 0 {
		cx.Res.Fail(lib.Failure{Kind: "corr", Key: "PARSEX:no-table", Desc: "the operator table is empty"})
		return
	}
	n := cx.Scale(2500, 60000)
	for i := 0; i < n; i++ {
		r := cx.R.Fork()
		var toks, texts []string
		next := 0
		var gen func(d int)
		gen = func(d int) {
			k := 1 + r.Intn(5)
			for j := 0; j < k; j++ {
				if j > 0 {
					o := table[r.Intn(len(table))]
					toks = append(toks, fmt.Sprintf("o%d", o.tok))
					texts = append(texts, o.text)
				}
				if d < 3 && r.Chance(1, 5) {
					toks = append(toks, "(")
					texts = append(texts, "(")
					gen(d + 1)
					toks = append(toks, ")")
					texts = append(texts, ")")
				} else {
					toks = append(toks, fmt.Sprintf("a%d", next))
					texts = append(texts, fmt.Sprintf("v%d", next))
					next++
				}
			}
		}
		gen(0)
		mut := "none"
		if r.Chance(1, 4) && len(toks) > 1 {
			mut = r.Pick([]string{"delete", "dup", "swap"})
			k := r.Intn(len(toks))
			switch mut {
			case "delete":
				toks = append(append([]string{}, toks[:k]...), toks[k+1:]...)
				texts = append(append([]string{}, texts[:k]...), texts[k+1:]...)
			case "dup":
				toks = append(append(append([]string{}, toks[:k+1]...), toks[k]), toks[k+1:]...)
				texts = append(append(append([]string{}, texts[:k+1]...), texts[k]), texts[k+1:]...)
			case "swap":
				j := r.Intn(len(toks))
				toks[k], toks[j] = toks[j], toks[k]
				texts[k], texts[j] = texts[j], texts[k]
			}
		}
		// a '-' or '!' where an operand is expected is a unary operator in the real grammar, "! =" would be two
		// tokens: the model has binary operators only
		skip := false
		for k, t := range toks {
			if strings.HasPrefix(t, "o") && (k == 0 || strings.HasPrefix(toks[k-1], "o") || toks[k-1] == "(") && (texts[k] == "-" || texts[k] == "!") {
				skip = true
			}
		}
		for k, t := range toks {
			// an identifier directly followed by "(" is a function call in the real grammar
			if t == "(" && k > 0 && strings.HasPrefix(toks[k-1], "a") {
				skip = true
			}
		}
		if skip || len(toks) == 0 {
			cx.Res.Count("corr-parsex:skipped:unary-or-call-position")
			continue
		}
		src := strings.Join(texts, " ")
		impl := "rej"
		e, diags := hclsyntax.ParseExpression([]byte(src), "", hcl.InitialPos)
		if !diags.HasErrors() {
			impl = showOpTree(e)
		}
		line := "PARSEX " + strings.Join(toks, " ")
		model := cx.Ask(line)
		cx.Res.CorrChecked++
		cx.Res.Count("corr-parsex:mutation:" + mut)
		if impl == "rej" {
			cx.Res.Count("corr-parsex:rejected")
		}
		if model != impl {
			cx.Res.Fail(lib.Failure{Kind: "corr", Key: "PARSEX", Desc: "the operator parser builds a different tree than the model with the regenerated table; source: " + src, Input: line, Model: model, Impl: impl})
		}
	}
}

func showOpTree(e hclsyntax.Expression) string {
	switch t := e.(type) {
	case *hclsyntax.BinaryOpExpr:
		return "(" + hclsyntax.VerifOpName(t.Op) + " " + showOpTree(t.LHS) + " " + showOpTree(t.RHS) + ")"
	case *hclsyntax.ParenthesesExpr:
		return "(p " + showOpTree(t.Expression) + ")"
	case *hclsyntax.ScopeTraversalExpr:
		return "a" + strings.TrimPrefix(t.Traversal.RootName(), "v")
	}
	return fmt.Sprintf("?%T", e)
}
