package c01

import (
	"fmt"
	"strconv"
	"strings"

	"github.com/hashicorp/hcl/v2"
	"github.com/hashicorp/hcl/v2/hclsyntax"
	"github.com/zclconf/go-cty/cty"

	"hx/lib"
)

// TMPL ties HclModel/Syntax/Template.lean (strip markers, flush heredocs, melding) to the template parser.
// The model's input is what the real scanner delivers for a generated template: one literal per literal token
// (after escape processing) and one opaque sequence per `${ … }` / `%{ … }` with its strip markers; the model's
// output is compared with the template tokens the real parser ended up with, read back from the tree it built
// (literal parts, interpolations, and the directives `if` / `else` / `endif` / `for` / `endfor` flattened in
// source order).

var tmplLits = []string{"a", " ", "  ", "x y", "\t", "b ", " c", "-", "é", " ", " z", "$", "%", "{", "}", "~", "", "  \t "}
var tmplLines = []string{"", "", "  ", "a", "  a", "    b", "\tc", "  d  ", " e", "  f", "   ", "x $ y", "  }"}

type tmplGen struct {
	r    *lib.Rand
	here bool // heredoc: literal newlines allowed
}

func (g *tmplGen) lit() string {
	if g.here && g.r.Chance(2, 3) {
		s := tmplLines[g.r.Intn(len(tmplLines))]
		if g.r.Chance(4, 5) {
			s += "\n"
		}
		return s
	}
	s := tmplLits[g.r.Intn(len(tmplLits))]
	if !g.here && g.r.Chance(1, 5) {
		s += `\n` // an escaped newline in a quoted template
	}
	return s
}

func (g *tmplGen) mark() string {
	if g.r.Chance(1, 3) {
		return "~"
	}
	return ""
}

// body renders a well-formed template body
func (g *tmplGen) body(depth int) string {
	var sb strings.Builder
	for n := g.r.Intn(5); n > 0; n-- {
		switch k := g.r.Intn(10); {
		case k < 5:
			sb.WriteString(g.lit())
		case k < 8 || depth <= 0:
			sb.WriteString("${" + g.mark() + " " + g.r.Pick([]string{"v", "n", "v", "\"s\"", "[1, 2][0]", "{a = 1}.a"}) + " " + g.mark() + "}")
		case k == 8:
			sb.WriteString("%{" + g.mark() + " if c " + g.mark() + "}" + g.body(depth-1))
			if g.r.Chance(1, 2) {
				sb.WriteString("%{" + g.mark() + " else " + g.mark() + "}" + g.body(depth-1))
			}
			sb.WriteString("%{" + g.mark() + " endif " + g.mark() + "}")
		default:
			sb.WriteString("%{" + g.mark() + " for x in l " + g.mark() + "}" + g.body(depth-1) + "%{" + g.mark() + " endfor " + g.mark() + "}")
		}
	}
	return sb.String()
}

func dotCps(s string) string {
	rs := []rune(s)
	parts := make([]string, len(rs))
	for i, r := range rs {
		parts[i] = strconv.Itoa(int(r))
	}
	return strings.Join(parts, ".")
}

// tmplRaws: the scanner's view of the outermost template of src
func tmplRaws(src []byte) (raws []string, kws []string, flush bool, ok bool) {
	toks, diags := hclsyntax.LexExpression(src, "", hcl.InitialPos)
	if diags.HasErrors() || len(toks) == 0 {
		return nil, nil, false, false
	}
	if toks[0].Type != hclsyntax.TokenOQuote && toks[0].Type != hclsyntax.TokenOHeredoc {
		return nil, nil, false, false
	}
	flush = toks[0].Type == hclsyntax.TokenOHeredoc && strings.HasPrefix(string(toks[0].Bytes), "<<-")
	id := 0
	for i := 1; i < len(toks); i++ {
		tk := toks[i]
		switch tk.Type {
		case hclsyntax.TokenCQuote, hclsyntax.TokenCHeredoc:
			return raws, kws, flush, true
		case hclsyntax.TokenQuotedLit, hclsyntax.TokenStringLit:
			s, d := hclsyntax.ParseStringLiteralToken(tk)
			if d.HasErrors() {
				return nil, nil, false, false
			}
			raws = append(raws, "L"+dotCps(s))
		case hclsyntax.TokenTemplateInterp, hclsyntax.TokenTemplateControl:
			kind := "I"
			if tk.Type == hclsyntax.TokenTemplateControl {
				kind = "C"
				if i+1 < len(toks) {
					kws = append(kws, string(toks[i+1].Bytes))
				}
			}
			l := "0"
			if len(tk.Bytes) == 3 && tk.Bytes[2] == '~' {
				l = "1"
			}
			depth := 1
			j := i + 1
			for ; j < len(toks) && depth > 0; j++ {
				switch toks[j].Type {
				case hclsyntax.TokenTemplateInterp, hclsyntax.TokenTemplateControl:
					depth++
				case hclsyntax.TokenTemplateSeqEnd:
					depth--
				}
			}
			if depth != 0 {
				return nil, nil, false, false
			}
			cl := toks[j-1]
			r := "0"
			if len(cl.Bytes) == 2 && cl.Bytes[0] == '~' {
				r = "1"
			}
			raws = append(raws, fmt.Sprintf("%s%d:%s%s", kind, id, l, r))
			id++
			i = j - 1
		default:
			return nil, nil, false, false
		}
	}
	return nil, nil, false, false
}

// tmplFlatten reads the template tokens back from the tree the parser built. kws: the keywords of the directive
// sequences in source order (the tree does not say whether an `if` had an `else`: a missing clause and an empty
// clause are both a sub-template holding one synthesized empty literal of zero width, which is not a token).
type tmplFlat struct {
	id  int
	kws []string
	out []string
}

func (f *tmplFlat) seq(k string) {
	f.out = append(f.out, fmt.Sprintf("%s%d", k, f.id))
	f.id++
}

func (f *tmplFlat) ctrl(want ...string) bool {
	if len(f.kws) == 0 {
		return false
	}
	kw := f.kws[0]
	for _, w := range want {
		if kw == w {
			f.kws = f.kws[1:]
			f.seq("C")
			return true
		}
	}
	return false
}

func (f *tmplFlat) parts(t *hclsyntax.TemplateExpr, top bool) bool {
	for _, p := range t.Parts {
		switch x := p.(type) {
		case *hclsyntax.LiteralValueExpr:
			if x.Val.Type() != cty.String || x.Val.IsNull() || !x.Val.IsKnown() {
				return false
			}
			if !top && len(t.Parts) == 1 && x.Val.AsString() == "" && x.SrcRange.Start.Byte == x.SrcRange.End.Byte {
				continue // synthesized for an empty or missing clause
			}
			f.out = append(f.out, "L"+dotCps(x.Val.AsString()))
		case *hclsyntax.ConditionalExpr:
			tt, ok := x.TrueResult.(*hclsyntax.TemplateExpr)
			ff, ok2 := x.FalseResult.(*hclsyntax.TemplateExpr)
			if !ok || !ok2 || !f.ctrl("if") || !f.parts(tt, false) {
				return false
			}
			if f.ctrl("else") {
				if !f.parts(ff, false) {
					return false
				}
			} else if len(ff.Parts) != 1 {
				return false
			}
			if !f.ctrl("endif") {
				return false
			}
		case *hclsyntax.TemplateJoinExpr:
			fe, ok := x.Tuple.(*hclsyntax.ForExpr)
			if !ok {
				return false
			}
			bt, ok := fe.ValExpr.(*hclsyntax.TemplateExpr)
			if !ok || !f.ctrl("for") || !f.parts(bt, false) || !f.ctrl("endfor") {
				return false
			}
		default:
			f.seq("I")
		}
	}
	return true
}

func tmplFlatten(e hclsyntax.Expression, kws []string) ([]string, bool) {
	f := &tmplFlat{kws: kws}
	switch t := e.(type) {
	case *hclsyntax.TemplateExpr:
		if !f.parts(t, true) || len(f.kws) != 0 {
			return nil, false
		}
		return f.out, true
	case *hclsyntax.TemplateWrapExpr:
		f.seq("I")
		return f.out, len(kws) == 0
	}
	return nil, false
}

func corrTemplate(cx *lib.Ctx) {
	if !cx.HasModel() {
		return
	}
	res := cx.Res
	n := cx.Scale(3000, 80000)
	for i := 0; i < n; i++ {
		r := cx.R.Fork()
		g := &tmplGen{r: r}
		var src string
		switch r.Intn(3) {
		case 0:
			src = "\"" + g.body(2) + "\""
		default:
			g.here = true
			op := "<<EOT"
			if r.Chance(2, 3) {
				op = "<<-EOT"
			}
			body := g.body(2)
			if body != "" && !strings.HasSuffix(body, "\n") {
				body += "\n"
			}
			nl := "\n"
			if r.Chance(1, 6) {
				body = strings.ReplaceAll(body, "\n", "\r\n")
				nl = "\r\n"
			}
			src = op + nl + body + strings.Repeat(" ", r.Intn(3)) + "EOT" + nl
		}
		raws, kws, flush, ok := tmplRaws([]byte(src))
		if !ok {
			res.Count("tmpl:scanner-view-unavailable")
			continue
		}
		e, diags := hclsyntax.ParseExpression([]byte(src), "", hcl.InitialPos)
		if diags.HasErrors() {
			res.Count("tmpl:parse-error")
			continue
		}
		flat, fok := tmplFlatten(e, kws)
		if !fok {
			res.Fail(lib.Failure{Kind: "corr", Key: "TMPL:tree-shape", Desc: "the tree built for a well-formed template is not made of literal parts, interpolations and if/for directives over sub-templates", Input: src})
			continue
		}
		impl := "-"
		if len(flat) > 0 {
			impl = strings.Join(flat, " ")
		}
		fl := "0"
		if flush {
			fl = "1"
			res.Count("tmpl:flush-heredoc")
		}
		model := cx.Ask("TMPL " + fl + " " + strings.Join(raws, " "))
		res.CorrChecked++
		res.Count("tmpl:cases")
		if strings.Contains(src, "~") {
			res.Count("tmpl:with-strip-marker")
		}
		if model != impl {
			res.Fail(lib.Failure{Kind: "corr", Key: "TMPL", Desc: "strip markers / flush heredoc / melding: the template tokens of the parsed tree differ from the model's", Input: src, Model: model, Impl: impl + "\nraws: " + strings.Join(raws, " ")})
		}
	}
}
