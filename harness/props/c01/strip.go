package c01

import (
	"fmt"
	"strings"

	"github.com/hashicorp/hcl/v2"
	"github.com/hashicorp/hcl/v2/hclsyntax"
	"github.com/zclconf/go-cty/cty"

	"hx/lib"
)

// stripOracle: template strip markers (spec.md, "Template Interpolation" / "Template Directives": a `~`
// immediately after the opening or before the closing of a sequence removes the white space of the literal text
// adjacent on that side, and only of that literal).  A template is generated as a list of parts — literal text
// with white space at its edges, interpolations and `if` directives with or without markers on either side —
// and its expected value is computed from the parts: a literal loses its leading white space iff the part right
// before it is a sequence closed with `~}`, and its trailing white space iff the part right after it is a
// sequence opened with `${~` / `%{~`.  (The scanner delivers literal text one line at a time, so "the literal
// adjacent" is the piece of text up to the nearest line break; the oracle follows that reading.)
func stripOracle(cx *lib.Ctx) {
	res := cx.Res
	R := cx.R.Fork()
	n := cx.Scale(2000, 80000)
	ctx := &hcl.EvalContext{Variables: map[string]cty.Value{"a": cty.StringVal("A"), "b": cty.StringVal("B"), "t": cty.True}}
	type part struct {
		lit         string // literal text ("" for a sequence)
		src, val    string // sequence source without the delimiters, and what it contributes
		left, right bool   // strip markers
		dir         bool   // a directive (%{ }) rather than an interpolation
	}
	for i := 0; i < n; i++ {
		r := R.Fork()
		var parts []part
		open := 0 // open if-directives
		for k := 1 + r.Intn(6); k > 0; k-- {
			switch r.Intn(5) {
			case 0, 1:
				ws := func() string { return strings.Repeat(" ", r.Intn(3)) + r.Pick([]string{"", "", "\n", "\t"}) }
				parts = append(parts, part{lit: ws() + r.Pick([]string{"x", "c d", "", "-"}) + ws()})
			case 2, 3:
				v := r.Pick([]string{"a", "b"})
				parts = append(parts, part{src: v, val: strings.ToUpper(v), left: r.Chance(1, 3), right: r.Chance(1, 3)})
			default:
				if open > 0 && r.Chance(1, 2) {
					parts = append(parts, part{src: "endif", dir: true, left: r.Chance(1, 3), right: r.Chance(1, 3)})
					open--
				} else {
					parts = append(parts, part{src: "if t", dir: true, left: r.Chance(1, 3), right: r.Chance(1, 3)})
					open++
				}
			}
		}
		for ; open > 0; open-- {
			parts = append(parts, part{src: "endif", dir: true})
		}
		// the heredoc's final newline is literal text too
		parts = append(parts, part{lit: "\n"})
		// adjacent literals are one literal
		var merged []part
		for _, p := range parts {
			if p.src == "" && len(merged) > 0 && merged[len(merged)-1].src == "" {
				merged[len(merged)-1].lit += p.lit
				continue
			}
			merged = append(merged, p)
		}
		parts = merged
		var src, want strings.Builder
		src.WriteString("<<EOT\n")
		for j, p := range parts {
			if p.src != "" {
				o, c := "${", "}"
				if p.dir {
					o = "%{"
				}
				if p.left {
					o += "~"
				}
				if p.right {
					c = "~}"
				}
				src.WriteString(o + " " + p.src + " " + c)
				want.WriteString(p.val)
				continue
			}
			src.WriteString(p.lit)
			// the scanner delivers literal text line by line: a marker reaches the line piece next to it
			var pieces []string
			rest := p.lit
			for rest != "" {
				if k := strings.IndexByte(rest, '\n'); k >= 0 {
					pieces = append(pieces, rest[:k+1])
					rest = rest[k+1:]
				} else {
					pieces = append(pieces, rest)
					rest = ""
				}
			}
			if len(pieces) > 0 && j > 0 && parts[j-1].right {
				pieces[0] = strings.TrimLeft(pieces[0], " \t\n\r")
			}
			if len(pieces) > 0 && j+1 < len(parts) && parts[j+1].left {
				pieces[len(pieces)-1] = strings.TrimRight(pieces[len(pieces)-1], " \t\n\r")
			}
			want.WriteString(strings.Join(pieces, ""))
		}
		src.WriteString("EOT\n")
		e, diags := hclsyntax.ParseExpression([]byte(src.String()), "", hcl.InitialPos)
		res.Evaluations++
		res.Count("strip-markers:cases")
		if diags.HasErrors() {
			res.Fail(lib.Failure{Kind: "oracle", Key: "strip-markers:rejected", Desc: "a well-formed template is rejected: " + diags.Error(), Input: src.String()})
			continue
		}
		got, vd := e.Value(ctx)
		if vd.HasErrors() || !got.IsKnown() || got.IsNull() || got.Type() != cty.String {
			res.Fail(lib.Failure{Kind: "oracle", Key: "strip-markers:evaluation", Desc: "evaluation failed: " + vd.Error(), Input: src.String()})
			continue
		}
		if got.AsString() != want.String() {
			res.Fail(lib.Failure{Kind: "oracle", Key: "strip-markers:value-differs",
				Desc:  "a strip marker did not remove exactly the white space of the literal adjacent to it",
				Input: src.String(), Impl: fmt.Sprintf("%q", got.AsString()), Model: fmt.Sprintf("%q", want.String())})
		}
	}
}
