package c01

import (
	"fmt"
	"strings"

	"github.com/zclconf/go-cty/cty"

	"hx/lib"
)

// Scope is a generated variable scope with the names available per type.
type Scope struct {
	Vars  map[string]cty.Value
	ByTy  map[string][]string  // "num","str","bool","listnum","liststr","tuple","map","obj","listobj","null"
	Flags map[string]string    // how a variable was abstracted: "unknown", "dyn", "marked", "marked-nested"
	Orig  map[string]cty.Value // the known, unmarked values before abstraction / marking
}

// Variant returns a scope in which the content of every marked variable (or marked element) is replaced by
// fresh content of the same type, keeping the mark positions; everything else is identical.
func (s *Scope) Variant(r *lib.Rand) *Scope {
	out := &Scope{Vars: map[string]cty.Value{}, ByTy: s.ByTy, Flags: s.Flags, Orig: s.Orig}
	for n, v := range s.Vars {
		out.Vars[n] = v
	}
	fresh := func(t cty.Type) cty.Value {
		switch {
		case t == cty.Number:
			return numVal(r)
		case t == cty.String:
			return strVal(r)
		case t == cty.Bool:
			return boolVal(r)
		}
		return cty.NilVal
	}
	for n, f := range s.Flags {
		v := s.Vars[n]
		switch f {
		case "marked":
			uv, _ := v.Unmark()
			t := uv.Type()
			switch {
			case t.IsPrimitiveType():
				out.Vars[n] = fresh(t).Mark("m")
			case t.IsListType() && t.ElementType().IsPrimitiveType():
				var els []cty.Value
				for i := r.Intn(4); i > 0; i-- {
					els = append(els, fresh(t.ElementType()))
				}
				if len(els) == 0 {
					out.Vars[n] = cty.ListValEmpty(t.ElementType()).Mark("m")
				} else {
					out.Vars[n] = cty.ListVal(els).Mark("m")
				}
			case t.IsMapType() && t.ElementType().IsPrimitiveType():
				out.Vars[n] = cty.MapVal(map[string]cty.Value{"a": fresh(t.ElementType()), "b": fresh(t.ElementType())}).Mark("m")
			case t.IsTupleType():
				var els []cty.Value
				for _, et := range t.TupleElementTypes() {
					if et.IsPrimitiveType() {
						els = append(els, fresh(et))
					} else {
						els = nil
						break
					}
				}
				if els != nil {
					out.Vars[n] = cty.TupleVal(els).Mark("m")
				}
			}
		case "marked-nested":
			var els []cty.Value
			for it := v.ElementIterator(); it.Next(); {
				_, ev := it.Element()
				if ev.IsMarked() {
					uv, _ := ev.Unmark()
					if nv := fresh(uv.Type()); nv != cty.NilVal {
						ev = nv.Mark("m")
					}
				}
				els = append(els, ev)
			}
			if v.Type().IsListType() {
				out.Vars[n] = cty.ListVal(els)
			} else {
				out.Vars[n] = cty.TupleVal(els)
			}
		}
	}
	return out
}

// Concrete returns the scope before any variable was abstracted to unknown (marks are kept).
func (s *Scope) Concrete() *Scope {
	out := &Scope{Vars: map[string]cty.Value{}, ByTy: s.ByTy, Flags: s.Flags, Orig: s.Orig}
	for n, v := range s.Vars {
		out.Vars[n] = v
		if f := s.Flags[n]; f == "unknown" || f == "dyn" {
			out.Vars[n] = s.Orig[n]
		}
	}
	return out
}

func numVal(r *lib.Rand) cty.Value {
	// always through the 512-bit parser, as literals in source are
	var t string
	switch r.Intn(8) {
	case 0:
		t = "0"
	case 1:
		t = fmt.Sprint(r.Intn(10))
	case 2:
		t = fmt.Sprint(-(1 + r.Intn(20)))
	case 3:
		t = fmt.Sprintf("%g", float64(r.Intn(40))/4)
	case 4:
		t = fmt.Sprintf("%g", -float64(1+r.Intn(40))/8)
	case 5:
		t = fmt.Sprint(r.Intn(1000000))
	case 6:
		t = "1" + strings.Repeat("0", 20+r.Intn(10))
	default:
		t = fmt.Sprint(1 + r.Intn(5))
	}
	return cty.MustParseNumberVal(t)
}

var strPool = []string{"hello", "", "a b", "12", "3.5", "-4", "true", "false", "1", "0", "x\"y", "é", "abc", "k", "a", "b"}

func strVal(r *lib.Rand) cty.Value { return cty.StringVal(strPool[r.Intn(len(strPool))]) }

func boolVal(r *lib.Rand) cty.Value { return cty.BoolVal(r.Chance(1, 2)) }

// GenScope builds a scope of known values, then abstracts / marks some of them when allowed.
func GenScope(r *lib.Rand, unknowns, marks bool) *Scope {
	s := &Scope{Vars: map[string]cty.Value{}, ByTy: map[string][]string{}, Flags: map[string]string{}, Orig: map[string]cty.Value{}}
	add := func(ty, name string, v cty.Value) {
		s.Vars[name] = v
		s.ByTy[ty] = append(s.ByTy[ty], name)
	}
	add("num", "n1", numVal(r))
	add("num", "n2", numVal(r))
	add("num", "idx", cty.MustParseNumberVal(fmt.Sprint(r.Intn(4))))
	add("str", "s1", strVal(r))
	add("str", "s2", strVal(r))
	add("str", "key", cty.StringVal(r.Pick([]string{"a", "b", "n", "zz"})))
	add("bool", "b1", boolVal(r))
	add("bool", "b2", boolVal(r))
	var nums []cty.Value
	for i := r.Intn(4); i > 0; i-- {
		nums = append(nums, numVal(r))
	}
	if len(nums) == 0 {
		add("listnum", "l1", cty.ListValEmpty(cty.Number))
	} else {
		add("listnum", "l1", cty.ListVal(nums))
	}
	add("liststr", "ls", cty.ListVal([]cty.Value{strVal(r), strVal(r)}))
	add("tuple", "t1", cty.TupleVal([]cty.Value{numVal(r), strVal(r), boolVal(r)}))
	add("map", "m1", cty.MapVal(map[string]cty.Value{"a": strVal(r), "b": strVal(r)}))
	add("obj", "o1", cty.ObjectVal(map[string]cty.Value{
		"n": numVal(r), "s": strVal(r), "l": cty.TupleVal([]cty.Value{numVal(r), numVal(r)}),
		"o": cty.ObjectVal(map[string]cty.Value{"k": strVal(r)}),
	}))
	add("listobj", "lo", cty.ListVal([]cty.Value{
		cty.ObjectVal(map[string]cty.Value{"a": numVal(r), "b": strVal(r)}),
		cty.ObjectVal(map[string]cty.Value{"a": numVal(r), "b": strVal(r)}),
	}))
	// keys whose type differs from the collection's own key type: the index operator converts them
	add("numstr", "sidx", cty.StringVal(r.Pick([]string{"0", "1", "2", "1"})))
	add("keymap", "mk", cty.MapVal(map[string]cty.Value{"0": strVal(r), "1": strVal(r), "2": strVal(r), "true": strVal(r), "false": strVal(r)}))
	add("null", "nul", cty.NullVal(cty.DynamicPseudoType))
	add("null", "nuls", cty.NullVal(cty.String))
	names := []string{"n1", "n2", "idx", "s1", "s2", "key", "b1", "b2", "l1", "ls", "t1", "m1", "o1", "lo", "sidx", "sidx", "mk"}
	for n, v := range s.Vars {
		s.Orig[n] = v
	}
	if unknowns {
		for k := r.Intn(3); k > 0; k-- {
			n := names[r.Intn(len(names))]
			if _, done := s.Flags[n]; done {
				continue
			}
			if r.Chance(1, 5) {
				s.Vars[n] = cty.DynamicVal
				s.Flags[n] = "dyn"
			} else {
				s.Vars[n] = cty.UnknownVal(s.Vars[n].Type())
				s.Flags[n] = "unknown"
			}
		}
	}
	if marks {
		for k := 1 + r.Intn(2); k > 0; k-- {
			n := names[r.Intn(len(names))]
			if _, done := s.Flags[n]; done {
				continue
			}
			v := s.Vars[n]
			if (v.Type().IsListType() || v.Type().IsTupleType()) && v.LengthInt() > 0 && r.Chance(1, 2) {
				// mark one element
				var els []cty.Value
				i, at := 0, r.Intn(v.LengthInt())
				for it := v.ElementIterator(); it.Next(); i++ {
					_, ev := it.Element()
					if i == at {
						ev = ev.Mark("m")
					}
					els = append(els, ev)
				}
				if v.Type().IsListType() {
					s.Vars[n] = cty.ListVal(els)
				} else {
					s.Vars[n] = cty.TupleVal(els)
				}
				s.Flags[n] = "marked-nested"
			} else {
				s.Vars[n] = v.Mark("m")
				s.Flags[n] = "marked"
			}
		}
	}
	return s
}

// TypedGen generates expression trees directed by a target type.
type TypedGen struct {
	R     *lib.Rand
	S     *Scope
	Stats map[string]int
	bound []string // iterator names in scope with their types: "num:fv", "str:fk", ...
}

func (g *TypedGen) pickVar(ty string) *lib.Node {
	var cands []string
	cands = append(cands, g.S.ByTy[ty]...)
	for _, b := range g.bound {
		if len(b) > len(ty) && b[:len(ty)+1] == ty+":" {
			cands = append(cands, b[len(ty)+1:])
		}
	}
	if len(cands) == 0 {
		return nil
	}
	// prefer variables that were abstracted or marked, so that the relational self-tests are not vacuous
	var pref []string
	for _, c := range cands {
		if _, ok := g.S.Flags[c]; ok {
			pref = append(pref, c)
		}
	}
	if len(pref) > 0 && g.R.Chance(3, 5) {
		return &lib.Node{K: "var", S: pref[g.R.Intn(len(pref))]}
	}
	return &lib.Node{K: "var", S: cands[g.R.Intn(len(cands))]}
}

func (g *TypedGen) numLit() *lib.Node {
	return &lib.Node{K: "num", S: g.R.Pick([]string{"0", "1", "2", "3", "10", "2.5", "0.125", "7", "100", "1e2", "010", "0755", "007", "00", "1.50", "01e1", "0.5e1"})}
}

func (g *TypedGen) strLit() *lib.Node {
	return &lib.Node{K: "str", S: g.R.Pick([]string{"a", "b", "hello", "", "12", "x y", "true", "n", "é"})}
}

func orElse(n *lib.Node, f func() *lib.Node) *lib.Node {
	if n != nil {
		return n
	}
	return f()
}

// Gen builds an expression of (mostly) the wanted type: "num", "str", "bool", "any", "tuple", "obj".
func (g *TypedGen) Gen(ty string, depth int) *lib.Node {
	r := g.R
	if r.Chance(1, 12) {
		// deliberately ill-typed sub-expression
		g.Stats["illtyped"]++
		ty = r.Pick([]string{"num", "str", "bool", "tuple", "obj", "null"})
	}
	if ty == "any" {
		ty = r.Pick([]string{"num", "num", "str", "str", "bool", "tuple", "obj"})
	}
	if ty == "null" {
		return orElse(g.pickVar("null"), func() *lib.Node { return &lib.Node{K: "null", S: "null"} })
	}
	if depth <= 0 {
		switch ty {
		case "num":
			if r.Chance(1, 2) {
				return orElse(g.pickVar("num"), g.numLit)
			}
			return g.numLit()
		case "str":
			if r.Chance(1, 2) {
				return orElse(g.pickVar("str"), g.strLit)
			}
			return g.strLit()
		case "bool":
			if r.Chance(1, 2) {
				return orElse(g.pickVar("bool"), func() *lib.Node { return &lib.Node{K: "bool", S: "true"} })
			}
			return &lib.Node{K: "bool", S: r.Pick([]string{"true", "false"})}
		case "tuple":
			return orElse(g.pickVar(r.Pick([]string{"listnum", "tuple", "liststr"})), func() *lib.Node { return &lib.Node{K: "tuple"} })
		default:
			return orElse(g.pickVar(r.Pick([]string{"obj", "map"})), func() *lib.Node { return &lib.Node{K: "object"} })
		}
	}
	d := depth - 1
	cond := func(t string) *lib.Node {
		g.Stats["cond"]++
		return &lib.Node{K: "cond", Kids: []*lib.Node{g.Gen("bool", d), g.Gen(t, d), g.Gen(t, d)}}
	}
	switch ty {
	case "num":
		switch r.Intn(12) {
		case 0, 1, 2:
			g.Stats["arith"]++
			return &lib.Node{K: "binop", S: r.Pick([]string{"+", "-", "*", "/", "%", "+", "-", "*"}), Kids: []*lib.Node{g.Gen("num", d), g.Gen("num", d)}}
		case 3:
			return &lib.Node{K: "unop", S: "-", Kids: []*lib.Node{g.Gen("num", d)}}
		case 4:
			return cond("num")
		case 5:
			g.Stats["index"]++
			if r.Chance(1, 4) {
				return &lib.Node{K: "index", Kids: []*lib.Node{{K: "var", S: r.Pick([]string{"l1", "t1"})}, {K: "var", S: "sidx"}}}
			}
			return &lib.Node{K: "index", Kids: []*lib.Node{orElse(g.pickVar("listnum"), func() *lib.Node { return g.Gen("tuple", 0) }), g.Gen("num", 0)}}
		case 6:
			g.Stats["attr"]++
			return &lib.Node{K: "attr", S: "n", Kids: []*lib.Node{&lib.Node{K: "var", S: "o1"}}}
		case 7:
			g.Stats["call"]++
			return &lib.Node{K: "call", S: "add3", Kids: []*lib.Node{g.Gen("num", d), g.Gen("num", d), g.Gen("num", d)}}
		case 8:
			g.Stats["call"]++
			if r.Chance(1, 2) {
				return &lib.Node{K: "call", S: "sumlist", Kids: []*lib.Node{orElse(g.pickVar("listnum"), func() *lib.Node { return g.Gen("tuple", 0) })}}
			}
			// expansion of a tuple into the three parameters
			return &lib.Node{K: "call", S: "add3", Flag: true, Kids: []*lib.Node{g.Gen("num", d), &lib.Node{K: "tuple", Kids: []*lib.Node{g.Gen("num", d), g.Gen("num", d)}}}}
		case 9:
			g.Stats["legacy"]++
			return &lib.Node{K: "legacy", S: "0", Kids: []*lib.Node{&lib.Node{K: "var", S: r.Pick([]string{"t1", "l1"})}}}
		case 10:
			g.Stats["attr"]++
			return &lib.Node{K: "attr", S: "a", Kids: []*lib.Node{&lib.Node{K: "index", Kids: []*lib.Node{&lib.Node{K: "var", S: "lo"}, g.Gen("num", 0)}}}}
		default:
			return g.Gen("num", 0)
		}
	case "bool":
		switch r.Intn(10) {
		case 0, 1:
			g.Stats["compare"]++
			return &lib.Node{K: "binop", S: r.Pick([]string{"<", "<=", ">", ">="}), Kids: []*lib.Node{g.Gen("num", d), g.Gen("num", d)}}
		case 2, 3:
			g.Stats["equality"]++
			t := r.Pick([]string{"num", "str", "bool", "any", "tuple"})
			return &lib.Node{K: "binop", S: r.Pick([]string{"==", "!="}), Kids: []*lib.Node{g.Gen(t, d), g.Gen(t, d)}}
		case 4, 5:
			g.Stats["logic"]++
			return &lib.Node{K: "binop", S: r.Pick([]string{"&&", "||"}), Kids: []*lib.Node{g.Gen("bool", d), g.Gen("bool", d)}}
		case 6:
			return &lib.Node{K: "unop", S: "!", Kids: []*lib.Node{g.Gen("bool", d)}}
		case 7:
			return cond("bool")
		default:
			return g.Gen("bool", 0)
		}
	case "str":
		switch r.Intn(10) {
		case 0, 1, 2:
			g.Stats["template"]++
			n := &lib.Node{K: "tmpl"}
			for i := 1 + r.Intn(3); i > 0; i-- {
				if r.Chance(1, 2) {
					n.Kids = append(n.Kids, &lib.Node{K: "tlit", S: r.Pick([]string{"a", " ", "x=", "-", "é"})})
				} else {
					n.Kids = append(n.Kids, &lib.Node{K: "interp", Kids: []*lib.Node{g.Gen(r.Pick([]string{"str", "num", "bool", "str"}), d)}})
				}
			}
			// adjacent literals are one literal to the parser
			var kids []*lib.Node
			for _, k := range n.Kids {
				if k.K == "tlit" && len(kids) > 0 && kids[len(kids)-1].K == "tlit" {
					kids[len(kids)-1].S += k.S
					continue
				}
				kids = append(kids, k)
			}
			n.Kids = kids
			return n
		case 3:
			return cond("str")
		case 4:
			g.Stats["call"]++
			n := &lib.Node{K: "call", S: "cat"}
			for i := r.Intn(4); i > 0; i-- {
				n.Kids = append(n.Kids, g.Gen("str", d))
			}
			if len(n.Kids) > 0 && r.Chance(1, 3) {
				n.Kids[len(n.Kids)-1] = orElse(g.pickVar("liststr"), func() *lib.Node { return g.Gen("tuple", 0) })
				if r.Chance(1, 5) {
					// anything may be written before `...`; only lists, sets and tuples may be expanded
					n.Kids[len(n.Kids)-1] = &lib.Node{K: "var", S: r.Pick([]string{"m1", "o1", "s1", "n1", "nul", "l1", "t1", "ls"})}
				}
				n.Flag = true
			}
			return n
		case 5:
			g.Stats["call"]++
			return &lib.Node{K: "call", S: "ns::cat2", Kids: []*lib.Node{g.Gen("str", d), g.Gen(r.Pick([]string{"str", "num"}), d)}}
		case 6:
			g.Stats["index"]++
			switch r.Intn(5) {
			case 0:
				// a number or bool key into a map, a numeric string into a list: the key is converted
				return &lib.Node{K: "index", Kids: []*lib.Node{{K: "var", S: "mk"}, {K: "var", S: r.Pick([]string{"idx", "b1", "b2"})}}}
			case 1:
				return &lib.Node{K: "index", Kids: []*lib.Node{{K: "var", S: "ls"}, {K: "var", S: "sidx"}}}
			}
			return &lib.Node{K: "index", Kids: []*lib.Node{&lib.Node{K: "var", S: "m1"}, g.Gen("str", 0)}}
		case 7:
			g.Stats["attr"]++
			return &lib.Node{K: "attr", S: r.Pick([]string{"s", "a", "zz"}), Kids: []*lib.Node{&lib.Node{K: "var", S: r.Pick([]string{"o1", "m1"})}}}
		case 8:
			g.Stats["template-for"]++
			// "%{for v in coll}…%{endfor}"
			g.bound = append(g.bound, "num:tv")
			body := &lib.Node{K: "tmpl", Kids: []*lib.Node{{K: "interp", Kids: []*lib.Node{g.Gen("num", d)}}, {K: "tlit", S: ","}}}
			g.bound = g.bound[:len(g.bound)-1]
			return &lib.Node{K: "tmpl", Kids: []*lib.Node{{K: "tlit", S: "<"}, {K: "tfor", S: "tv", Kids: []*lib.Node{orElse(g.pickVar("listnum"), func() *lib.Node { return g.Gen("tuple", 0) }), body}}, {K: "tlit", S: ">"}}}
		case 9:
			g.Stats["template-if"]++
			// "%{if c}A%{else}B%{endif}": the clauses are sub-templates and always produce strings, also when a
			// clause is a single interpolation of a number, a bool or a collection
			clause := func() *lib.Node {
				c := &lib.Node{K: "tmpl"}
				switch r.Intn(4) {
				case 0:
					c.Kids = append(c.Kids, &lib.Node{K: "tlit", S: r.Pick([]string{"a", " ", "x="})})
				case 1:
					c.Kids = append(c.Kids, &lib.Node{K: "tlit", S: "v"}, &lib.Node{K: "interp", Kids: []*lib.Node{g.Gen(r.Pick([]string{"str", "num", "bool"}), 0)}})
				default:
					c.Kids = append(c.Kids, &lib.Node{K: "interp", Kids: []*lib.Node{g.Gen(r.Pick([]string{"str", "num", "bool", "num", "bool", "tuple"}), 0)}})
				}
				return c
			}
			tif := &lib.Node{K: "tif", Kids: []*lib.Node{g.Gen("bool", d), clause()}}
			if r.Chance(3, 4) {
				tif.Kids = append(tif.Kids, clause())
			}
			n := &lib.Node{K: "tmpl"}
			if r.Chance(1, 3) {
				n.Kids = append(n.Kids, &lib.Node{K: "tlit", S: "<"})
			}
			n.Kids = append(n.Kids, tif)
			if r.Chance(1, 3) {
				n.Kids = append(n.Kids, &lib.Node{K: "tlit", S: ">"})
			}
			return n
		default:
			return g.Gen("str", 0)
		}
	case "tuple":
		switch r.Intn(8) {
		case 0, 1:
			g.Stats["tuplecons"]++
			n := &lib.Node{K: "tuple"}
			for i := r.Intn(4); i > 0; i-- {
				n.Kids = append(n.Kids, g.Gen("any", d))
			}
			return n
		case 2, 3:
			g.Stats["for-tuple"]++
			coll, ety := g.collection()
			n := &lib.Node{K: "fortuple", S: "fv"}
			g.bound = append(g.bound, ety+":fv")
			if r.Chance(1, 2) {
				n.S2 = "fk"
				g.bound = append(g.bound, g.keyTy(coll)+":fk")
			}
			n.Kids = []*lib.Node{coll, g.Gen(r.Pick([]string{ety, "any", "num"}), d)}
			if r.Chance(1, 3) {
				n.Kids = append(n.Kids, g.Gen("bool", d))
			}
			g.bound = g.bound[:len(g.bound)-1]
			if n.S2 != "" {
				g.bound = g.bound[:len(g.bound)-1]
			}
			return n
		case 4:
			g.Stats["splat"]++
			src := &lib.Node{K: "var", S: "lo"}
			if r.Chance(1, 4) {
				src = &lib.Node{K: "var", S: r.Pick([]string{"o1", "nul", "l1", "t1", "m1", "ls", "s1", "n1"})}
			}
			sp := &lib.Node{K: r.Pick([]string{"fsplat", "asplat"}), Kids: []*lib.Node{src}}
			if r.Chance(1, 5) {
				// a bare splat: the auto-upgrade of a non-sequence (object, map, primitive, null) to a tuple shows
				return sp
			}
			return &lib.Node{K: "attr", S: r.Pick([]string{"a", "b", "n"}), Kids: []*lib.Node{sp}}
		case 5:
			return cond("tuple")
		default:
			return g.Gen("tuple", 0)
		}
	default: // obj
		switch r.Intn(8) {
		case 0, 1, 2:
			g.Stats["objectcons"]++
			n := &lib.Node{K: "object"}
			for i := r.Intn(4); i > 0; i-- {
				var k *lib.Node
				switch r.Intn(4) {
				case 0, 1:
					k = &lib.Node{K: "ident", S: r.Pick([]string{"a", "b", "n", "k1"})}
				case 2:
					k = g.strLit()
				default:
					k = g.Gen(r.Pick([]string{"str", "num", "any"}), d)
				}
				n.Kids = append(n.Kids, k, g.Gen("any", d))
			}
			return n
		case 3, 4:
			g.Stats["for-object"]++
			coll, ety := g.collection()
			n := &lib.Node{K: "forobj", S: "fv", S2: "fk"}
			g.bound = append(g.bound, ety+":fv", g.keyTy(coll)+":fk")
			keyE := &lib.Node{K: "var", S: "fk"}
			if r.Chance(1, 3) {
				keyE = g.Gen(r.Pick([]string{"str", ety}), d)
			}
			n.Kids = []*lib.Node{coll, keyE, g.Gen(r.Pick([]string{ety, "any"}), d)}
			n.Flag = r.Chance(1, 4)
			if r.Chance(1, 3) {
				n.Kids = append(n.Kids, g.Gen("bool", d))
			}
			g.bound = g.bound[:len(g.bound)-2]
			return n
		case 5:
			return cond("obj")
		default:
			return g.Gen("obj", 0)
		}
	}
}

// collection picks an iterable variable and the type tag of its elements.
func (g *TypedGen) collection() (*lib.Node, string) {
	tags := map[string]string{"l1": "num", "ls": "str", "m1": "str", "t1": "any", "o1": "any"}
	for n := range g.S.Flags {
		if t, ok := tags[n]; ok && g.R.Chance(1, 2) {
			return &lib.Node{K: "var", S: n}, t
		}
	}
	switch g.R.Intn(7) {
	case 0, 1:
		return &lib.Node{K: "var", S: "l1"}, "num"
	case 2:
		return &lib.Node{K: "var", S: "ls"}, "str"
	case 3:
		return &lib.Node{K: "var", S: "m1"}, "str"
	case 4:
		return &lib.Node{K: "var", S: "t1"}, "any"
	case 5:
		return &lib.Node{K: "var", S: "o1"}, "any"
	default:
		return &lib.Node{K: "tuple", Kids: []*lib.Node{g.numLit(), g.numLit()}}, "num"
	}
}

func (g *TypedGen) keyTy(coll *lib.Node) string {
	if coll.K == "var" && (coll.S == "m1" || coll.S == "o1") {
		return "str"
	}
	return "num"
}

func describe(s *Scope) string {
	out := ""
	for n, f := range s.Flags {
		out += fmt.Sprintf("%s:%s ", n, f)
	}
	return out
}
