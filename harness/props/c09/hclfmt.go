package c09

import (
	"bytes"
	"os"
	"os/exec"
	"path/filepath"
	"strings"

	"github.com/hashicorp/hcl/v2"
	"github.com/hashicorp/hcl/v2/hclsyntax"
	"github.com/hashicorp/hcl/v2/hclwrite"

	"hx/lib"
)

// c09Tool runs the command-line formatter (cmd/hclfmt, built from the working tree by the check and passed
// in HX_HCLFMT_BIN) on generated sources: through stdin/stdout and in place (-w) on files.  What the tool
// leaves behind must be exactly hclwrite.Format of the input — same tokens, only spacing — and running it
// again must change nothing.  Sources are rendered with generous layouts so that formatting both shrinks and
// grows files.
func c09Tool(cx *lib.Ctx) {
	res := cx.Res
	bin := os.Getenv("HX_HCLFMT_BIN")
	if bin == "" {
		res.Count("hclfmt-tool:skipped-no-binary")
		return
	}
	dir, err := os.MkdirTemp(filepath.Dir(bin), "hclfmt-work-")
	if err != nil {
		res.Notes = append(res.Notes, "hclfmt stream: cannot create a work directory: "+err.Error())
		return
	}
	defer os.RemoveAll(dir)
	n := cx.Scale(60, 1500)
	R := cx.R.Fork()
	for i := 0; i < n; i++ {
		r := R.Fork()
		eg := &lib.ExprGen{R: r}
		bg := &lib.BodyGen{R: r, E: eg, ExprDep: 2}
		body := bg.Body(2)
		rd := &lib.Renderer{R: r}
		var toks []lib.Tk
		rd.BodyTokens(&toks, body)
		src := lib.RenderChecked(toks, lib.RandomLayout(r))
		if r.Chance(1, 2) {
			// over-indent: the canonical form is shorter
			src = "      " + strings.ReplaceAll(src, "\n", "\n        ")
		}
		if _, diags := hclsyntax.ParseConfig([]byte(src), "", hcl.InitialPos); diags.HasErrors() {
			continue
		}
		want := hclwrite.Format([]byte(src))
		// stdin -> stdout
		cmd := exec.Command(bin)
		cmd.Stdin = strings.NewReader(src)
		var out, errb bytes.Buffer
		cmd.Stdout, cmd.Stderr = &out, &errb
		if err := cmd.Run(); err != nil {
			res.Fail(lib.Failure{Kind: "oracle", Key: "hclfmt-tool:stdin-failed", Desc: "hclfmt failed on a valid configuration: " + err.Error() + " " + errb.String(), Input: src})
			continue
		}
		res.Count("hclfmt-tool:stdin")
		if !bytes.Equal(out.Bytes(), want) {
			res.Fail(lib.Failure{Kind: "oracle", Key: "hclfmt-tool:stdout-differs", Desc: "hclfmt's output differs from hclwrite.Format of its input", Input: src, Impl: out.String(), Model: string(want)})
			continue
		}
		// in place
		path := filepath.Join(dir, "f.hcl")
		if err := os.WriteFile(path, []byte(src), 0o644); err != nil {
			continue
		}
		for pass := 1; pass <= 2; pass++ {
			cmd = exec.Command(bin, "-w", path)
			errb.Reset()
			cmd.Stderr = &errb
			if err := cmd.Run(); err != nil {
				res.Fail(lib.Failure{Kind: "oracle", Key: "hclfmt-tool:write-failed", Desc: "hclfmt -w failed: " + err.Error() + " " + errb.String(), Input: src})
				break
			}
			got, _ := os.ReadFile(path)
			if !bytes.Equal(got, want) {
				key := "hclfmt-tool:file-differs"
				if pass == 2 {
					key = "hclfmt-tool:second-run-changes-file"
				}
				d := "shrinks"
				if len(want) >= len(src) {
					d = "does not shrink"
				}
				res.Fail(lib.Failure{Kind: "oracle", Key: key, Desc: "after hclfmt -w the file is not hclwrite.Format of the original (formatting " + d + " this input)", Input: src, Impl: string(got), Model: string(want)})
				break
			}
		}
		res.Count("hclfmt-tool:in-place")
		if len(want) < len(src) {
			res.Count("hclfmt-tool:in-place:shrinks")
		}
		res.Evaluations += 3
	}
}
