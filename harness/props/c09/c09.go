package c09

import (
	"bytes"
	"fmt"
	"strconv"
	"strings"

	"github.com/apparentlymart/go-textseg/v15/textseg"
	"github.com/hashicorp/hcl/v2"
	"github.com/hashicorp/hcl/v2/hclsyntax"
	"github.com/hashicorp/hcl/v2/hclwrite"

	"hx/lib"
)

func init() { lib.Register("C09", runC09) }

// fmtRulesLine dumps spaceAfterToken over its whole finite domain (subject type x is-keyword-in x
// before type x after type) and tokenBracketChange, from the compiled code, as the model's RULES line.
func fmtRulesLine() (string, []hclsyntax.TokenType, error) {
	tys, _, err := lib.TokenTypesFromSource()
	if err != nil {
		return "", nil, err
	}
	n := len(tys)
	var codes, brs []string
	for _, t := range tys {
		codes = append(codes, strconv.Itoa(int(t)))
		brs = append(brs, strconv.Itoa(hclwrite.VerifTokenBracketChange(&hclwrite.Token{Type: t})))
	}
	bits := make([]byte, 0, n*2*n*n)
	for _, s := range tys {
		for isIn := 0; isIn < 2; isIn++ {
			sb := []byte("x")
			if isIn == 1 {
				sb = []byte("in")
			}
			subj := &hclwrite.Token{Type: s, Bytes: sb}
			for _, b := range tys {
				bt := &hclwrite.Token{Type: b, Bytes: []byte("y")}
				for _, a := range tys {
					at := &hclwrite.Token{Type: a, Bytes: []byte("z")}
					if hclwrite.VerifSpaceAfterToken(subj, bt, at) {
						bits = append(bits, '1')
					} else {
						bits = append(bits, '0')
					}
				}
			}
		}
	}
	return "RULES " + strings.Join(codes, ",") + " " + string(bits) + " " + strings.Join(brs, ","), tys, nil
}

func encodeFmtToks(toks hclwrite.Tokens) string {
	var sb strings.Builder
	sb.WriteString("FMT")
	for _, t := range toks {
		isIn, nl := 0, 0
		if t.Type == hclsyntax.TokenIdent && string(t.Bytes) == "in" {
			isIn = 1
		}
		if hclwrite.VerifTokenIsNewline(t) {
			nl = 1
		}
		w, _ := textseg.TokenCount(t.Bytes, textseg.ScanGraphemeClusters)
		fmt.Fprintf(&sb, " %d:%d:%d:%d:%d", int(t.Type), isIn, nl, w, t.SpacesBefore)
	}
	return sb.String()
}

type heldResult struct {
	src  string
	out  []byte
	copy string
}

// heldResults: the last few Format results, kept to see whether a later call disturbs them
var heldResults []heldResult

// c09Oracle checks the property on the real formatter for one error-free source. It returns whether
// the case was non-trivial (formatting changed the text).
func c09Oracle(cx *lib.Ctx, src []byte, origin string) bool {
	f, diags := hclsyntax.ParseConfig(src, "", hcl.InitialPos)
	if diags.HasErrors() {
		cx.Res.Count("oracle-skip-invalid")
		return false
	}
	nontrivial := false
	cx.Guard("format", string(src), func() {
		out := hclwrite.Format(src)
		nontrivial = !bytes.Equal(out, src)
		// results of earlier calls must stay what they were (a result is the caller's to keep)
		for _, h := range heldResults {
			if string(h.out) != h.copy {
				cx.Res.Fail(lib.Failure{Kind: "oracle", Key: "earlier-result-changed-by-later-call", Desc: "the slice returned by an earlier Format call changed its content after a later Format call (" + origin + ")",
					Input: h.src + "\n---- then ----\n" + string(src), Impl: "earlier result was:\n" + h.copy + "\nand is now:\n" + string(h.out)})
				heldResults = nil
				break
			}
		}
		if len(heldResults) >= 8 {
			heldResults = heldResults[1:]
		}
		heldResults = append(heldResults, heldResult{src: string(src), out: out, copy: string(out)})
		if k, differ := lib.DiffKey(lib.LexSeq(src), lib.LexSeq(out)); differ {
			cx.Res.Fail(lib.Failure{Kind: "oracle", Key: "tokens-changed:" + k, Desc: "formatting changed the token sequence (" + origin + ")", Input: string(src), Impl: string(out)})
			return
		}
		f2, d2 := hclsyntax.ParseConfig(out, "", hcl.InitialPos)
		if d2.HasErrors() {
			cx.Res.Fail(lib.Failure{Kind: "oracle", Key: "reparse-error", Desc: "formatted output does not parse: " + d2.Error(), Input: string(src), Impl: string(out)})
			return
		}
		if lib.DumpBody(f.Body.(*hclsyntax.Body), false) != lib.DumpBody(f2.Body.(*hclsyntax.Body), false) {
			cx.Res.Fail(lib.Failure{Kind: "oracle", Key: "ast-changed", Desc: "formatted output parses to a different configuration", Input: string(src), Impl: string(out)})
			return
		}
		// the other way into the same formatter: load the file and write it out (File.Bytes formats the tokens)
		// (the file is loaded from a buffer of the caller's that is recycled right afterwards: the file owns its tokens)
		scratch := append([]byte{}, src...)
		if wf, wd := hclwrite.ParseConfig(scratch, "", hcl.InitialPos); !wd.HasErrors() {
			for i := range scratch {
				scratch[i] = "#{}=\"\n x"[i%8]
			}
			if fb := wf.Bytes(); !bytes.Equal(fb, out) {
				cx.Res.Fail(lib.Failure{Kind: "oracle", Key: "file-route-differs", Desc: "hclwrite.ParseConfig(src).Bytes() differs from hclwrite.Format(src): both format the same tokens (" + origin + ")", Input: string(src), Impl: string(fb), Model: string(out)})
				return
			}
		}
		out2 := hclwrite.Format(out)
		if !bytes.Equal(out2, out) {
			cx.Res.Fail(lib.Failure{Kind: "oracle", Key: "not-idempotent", Desc: "Format(Format(src)) != Format(src)", Input: string(src), Impl: string(out) + "\n----\n" + string(out2)})
		}
	})
	return nontrivial
}

// c09Corr compares the real in-place formatter with the model on the real token stream of src.
func c09Corr(cx *lib.Ctx, src []byte) {
	if !cx.HasModel() {
		return
	}
	toks := hclwrite.VerifLexConfig(src)
	line := encodeFmtToks(toks)
	want := cx.Ask(line)
	ok := cx.Guard("format-tokens", string(src), func() { hclwrite.VerifFormat(toks) })
	if !ok {
		return
	}
	parts := make([]string, len(toks))
	for i, t := range toks {
		parts[i] = strconv.Itoa(t.SpacesBefore)
	}
	got := strings.Join(parts, " ")
	cx.Res.CorrChecked++
	if got != want {
		cx.Res.Fail(lib.Failure{Kind: "corr", Key: "FMT", Desc: "spacing vector of hclwrite.format differs from the model's format R", Input: string(src), Model: want, Impl: got})
	}
}

// handCorpusC09 are sources kept because they once exposed a problem or exercise a rule.
var handCorpusC09 = []string{
	"x = a.0 .5\n",
	"x = 1 .e5\n",
	"a=1\nbbb   =  2 # c\ncc = [\n1,\n2]\n",
	"b \"l\" { a = -1 }\n",
	"x = [for x in [foo]: x]\n",
	"x = <<EOT\n  hi ${a}\nEOT\ny = 1\n",
	"x = \"${ {a=1} }\"\n",
	"x = a - -b\nx2 = a ? -1 : - 2\n",
	"x = f (a , b ...)\n",
	"x = a [0] . b [* ] . c\n",
	"x = { a : 1, \"b\" = 2 }\n",
	"x = ns :: f ( 1 )\n",
	"b {\n}\nb { }\n",
	"x = <<EOT\n${a}\nEOT\n",
	"x = <<-EOT\n%{ if c }y%{ endif }\n  EOT\n",
	"x = ! a && ! ( b )\n",
}

func runC09(cx *lib.Ctx) {
	res := cx.Res
	if cx.Replay != "" {
		src := lib.ReplayInput(cx.Replay)
		c09Oracle(cx, []byte(src), "replay")
		res.Case(src, true)
		res.Sample(src)
		return
	}
	res.Rule = "random body trees over the full expression grammar rendered under random layouts (spacing, comments, CRLF, tabs, optional newlines inside brackets), checked by the real lexer to denote the intended tokens; plus byte mutations (correspondence only) and an exhaustive enumeration of short token windows re-spaced by the rule table; non-trivial = Format(src) != src; distinct by source text"
	rules, _, err := fmtRulesLine()
	if err != nil {
		res.Fail(lib.Failure{Kind: "corr", Key: "rules-dump", Desc: "cannot read token types from hclsyntax/token.go: " + err.Error()})
		return
	}
	if !cx.HasModel() {
		res.Notes = append(res.Notes, "model driver unavailable: correspondence skipped")
	} else if a := cx.Ask(rules); a != "ok" {
		res.Fail(lib.Failure{Kind: "corr", Key: "rules-dump", Desc: "model rejected RULES: " + a})
		return
	}
	for _, s := range []string{"a = <<EOT\nhello\nEOT  \nb = 1\n", "a = <<-EOT\n  hello\n    EOT\t\nb = 1\n", "a = <<EOT\r\nhello\r\nEOT \r\n", "a = 1\n# done  ", "a=1 # trailing note \t ", "a = 1\n// done\t", "# only a comment ", "a = 1  ", "a = 1\n  ", "a = 1 /* c */  "} {
		nt := c09Oracle(cx, []byte(s), "corpus")
		c09Corr(cx, []byte(s))
		res.Case(s, nt)
	}
	for _, s := range handCorpusC09 {
		nt := c09Oracle(cx, []byte(s), "corpus")
		c09Corr(cx, []byte(s))
		res.Case(s, nt)
	}
	n := cx.Scale(4000, 150000)
	for i := 0; i < n; i++ {
		r := cx.R.Fork()
		eg := &lib.ExprGen{R: r}
		bg := &lib.BodyGen{R: r, E: eg, ExprDep: 3}
		body := bg.Body(2)
		rd := &lib.Renderer{R: r, ExtraParen: 5}
		var toks []lib.Tk
		rd.BodyTokens(&toks, body)
		src := lib.RenderChecked(toks, lib.RandomLayout(r))
		if r.Chance(1, 3) {
			src = withHeredocs(r, src)
		}
		if r.Chance(1, 25) {
			// one very long token (a comment, a string): output is written in pieces
			long := strings.Repeat(r.Pick([]string{"ab ", "x", "é-", "0123456789 "}), 200+r.Intn(600))
			switch r.Intn(3) {
			case 0:
				src = strings.Replace(src, "\n", " # "+long+"\n", 1)
			case 1:
				src += "zz_long = \"" + long + "\"\n"
			default:
				src = "/* " + long + " */\n" + src
			}
			res.Count("with-long-token")
		}
		if r.Chance(1, 10) {
			src = strings.TrimRight(src, "\r\n")
		}
		if r.Chance(1, 8) {
			// how the file ends: no final newline; blanks, a comment (whose text may itself end in blanks) or both
			// after the last token, so that what follows the last line ending is not "between two tokens"
			src = strings.TrimRight(src, "\r\n")
			if r.Chance(1, 2) {
				src += "\n"
			}
			src += r.Pick([]string{"", " ", "\t", "  "}) + r.Pick([]string{"# done", "// done", "# done  ", "// done\t", "#", "# x \t ", "/* c */", "/* c */  ", "", "", " \t"})
			res.Count("unterminated-last-line")
		}
		nt := c09Oracle(cx, []byte(src), "generated")
		c09Corr(cx, []byte(src))
		res.Case(src, nt)
		if i < 3 {
			res.Sample(src)
		}
		if r.Chance(1, 3) {
			m := lib.MutateBytes(r, []byte(src))
			c09Corr(cx, m)
			c09Oracle(cx, m, "mutated")
			res.Count("mutated")
		}
	}
	c09Windows(cx)
	c09Tool(cx)
}

// c09Windows enumerates short windows of representative tokens, embeds each in several expression
// contexts with single spaces (so that it lexes as intended), and runs the oracle on those that parse.
func c09Windows(cx *lib.Ctx) {
	reps := []string{"a", "in", "x-y", "e5", "0", "5", "1.5", "1e5", ".", "-", "!", "+", "*", "/", "%", "==", "!=", "<", "<=", ">", ">=", "&&", "||", "?", ":", ",", "(", ")", "[", "]", "{", "}", "=", "=>", "...", "::", "\"s\"", "\"${a}\"", "null", "for", "if"}
	ctxs := [][2]string{{"x = ", "\n"}, {"x = a", "\n"}, {"x = a.", "\n"}, {"x = f(", ")\n"}, {"x = [", "]\n"}, {"x = {a = ", "}\n"}, {"x = a ? ", " : c\n"}, {"x = [for v in ", " : v]\n"}, {"x = \"${", "}\"\n"}}
	k := 3
	if cx.Thorough() {
		k = 4
	}
	idx := make([]int, k)
	count, valid := 0, 0
	for {
		parts := make([]string, k)
		for i, j := range idx {
			parts[i] = reps[j]
		}
		w := strings.Join(parts, " ")
		for _, c := range ctxs {
			src := []byte(c[0] + w + c[1])
			count++
			if _, d := hclsyntax.ParseConfig(src, "", hcl.InitialPos); d.HasErrors() {
				continue
			}
			valid++
			nt := c09Oracle(cx, src, "window")
			cx.Res.Case(string(src), nt)
		}
		// next
		p := k - 1
		for p >= 0 {
			idx[p]++
			if idx[p] < len(reps) {
				break
			}
			idx[p] = 0
			p--
		}
		if p < 0 {
			break
		}
	}
	cx.Res.Exhaustive = map[string]int{"windows_tried": count, "windows_valid": valid, "window_len": k, "representatives": len(reps)}
}

// withHeredocs appends attributes (and a block holding one) whose values are heredoc templates: plain and
// flush, first line starting with literal text, an interpolation or a directive, nested interpolations.
func withHeredocs(r *lib.Rand, src string) string {
	var sb strings.Builder
	sb.WriteString(src)
	if !strings.HasSuffix(src, "\n") {
		sb.WriteString("\n")
	}
	lines := []string{"${a}", "${a}${b}", "%{ if c }x%{ endif }", "%{ for v in l }${v}%{ endfor }", "text", "  indented ${ a } more", "", "${ {k = 1}.k }", "tab\there", "$${escaped} %%{also}", "a ${ \"q${b}\" } z", "${a ~} trailing"}
	for k := 1 + r.Intn(2); k > 0; k-- {
		op := "<<"
		if r.Chance(1, 2) {
			op = "<<-"
		}
		indent := strings.Repeat(" ", r.Intn(5))
		fmt.Fprintf(&sb, "%shd%d%s=%s%sEOT\n", indent, k, strings.Repeat(" ", r.Intn(3)), strings.Repeat(" ", r.Intn(3)), op)
		for j := r.Intn(4); j > 0; j-- {
			sb.WriteString(lines[r.Intn(len(lines))])
			sb.WriteString("\n")
		}
		// the closing marker's line may carry blanks after the marker: the scanner folds them into the marker token
		sb.WriteString(indent + "EOT" + r.Pick([]string{"", "", "", " ", "  ", "\t", " \t "}) + "\n")
	}
	if r.Chance(1, 2) {
		sb.WriteString("blk {\n  inner = <<EOT\n" + lines[r.Intn(len(lines))] + "\nEOT\n}\n")
	}
	return sb.String()
}
