// hx-c03: the hx command with only property C03 linked in (for isolated development builds).
package main

import (
	"os"

	"hx/lib"
	_ "hx/props/c03"
)

func main() { lib.Main(os.Args[1:]) }
