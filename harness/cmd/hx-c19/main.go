// hx-c19: development build of the C19 runner alone.
package main

import (
	"os"

	"hx/lib"
	_ "hx/props/c19"
)

func main() { lib.Main(os.Args[1:]) }
