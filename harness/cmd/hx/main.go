// hx: the implementation-side harness. `hx <property> -tier quick|thorough -seed N -out result.json [-replay file]`
package main

import (
	"os"

	"hx/lib"
	_ "hx/props/c09"
)

func main() { lib.Main(os.Args[1:]) }
