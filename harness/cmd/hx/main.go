// hx: the implementation-side harness. `hx <property> -tier quick|thorough -seed N -out result.json [-replay file]`
package main

import (
	"os"

	"hx/lib"
	_ "hx/props/c01"
	_ "hx/props/c02"
	_ "hx/props/c03"
	_ "hx/props/c04"
	_ "hx/props/c05"
	_ "hx/props/c06"
	_ "hx/props/c07"
	_ "hx/props/c08"
	_ "hx/props/c09"
	_ "hx/props/c10"
	_ "hx/props/c11"
	_ "hx/props/c12"
	_ "hx/props/c13"
	_ "hx/props/c14"
	_ "hx/props/c15"
	_ "hx/props/c16"
	_ "hx/props/c17"
	_ "hx/props/c18"
	_ "hx/props/c19"
	_ "hx/props/c20"
)

func main() { lib.Main(os.Args[1:]) }
