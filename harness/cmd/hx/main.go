// hx: the implementation-side harness. `hx <property> -tier quick|thorough -seed N -out result.json [-replay file]`
package main

import (
	"encoding/json"
	"flag"
	"fmt"
	"os"
	"runtime/debug"
	"time"

	"hx/lib"
)

// Ctx is what a property runner gets.
type Ctx struct {
	Prop   string
	Tier   string
	Seed   uint64
	R      *lib.Rand
	Res    *lib.Result
	Replay string
	Start  time.Time
	model  *lib.Model
}

func (c *Ctx) Thorough() bool { return c.Tier == "thorough" }

// Scale picks the case count for the tier.
func (c *Ctx) Scale(quick, thorough int) int {
	if c.Thorough() {
		return thorough
	}
	return quick
}

// Model starts the Lean driver on first use.
func (c *Ctx) Model() *lib.Model {
	if c.model == nil {
		m, err := lib.StartModel()
		if err != nil {
			fmt.Fprintln(os.Stderr, "cannot start model driver:", err)
			os.Exit(3)
		}
		c.model = m
	}
	return c.model
}

// HasModel is false when the check could not build the driver (the oracle still runs).
func (c *Ctx) HasModel() bool { return os.Getenv("HX_NO_MODEL") == "" }

// Ask queries the model; a dead driver is fatal (exit 3 = infrastructure error).
func (c *Ctx) Ask(line string) string {
	s, err := c.Model().Ask(line)
	if err != nil {
		fmt.Fprintln(os.Stderr, "model driver error:", err, "on line:", trunc(line, 300))
		os.Exit(3)
	}
	return s
}

func trunc(s string, n int) string {
	if len(s) > n {
		return s[:n] + "..."
	}
	return s
}

// Guard runs f, converting a panic of the implementation into a failure record.
func (c *Ctx) Guard(key string, input interface{}, f func()) (ok bool) {
	defer func() {
		if r := recover(); r != nil {
			c.Res.Fail(lib.Failure{Kind: "oracle", Key: "panic:" + key, Desc: fmt.Sprintf("panic: %v\n%s", r, trunc(string(debug.Stack()), 1500)), Input: input})
			ok = false
		}
	}()
	f()
	return true
}

var runners = map[string]func(*Ctx){}

func main() {
	if len(os.Args) < 2 {
		fmt.Fprintln(os.Stderr, "usage: hx <property> [flags]")
		os.Exit(2)
	}
	prop := os.Args[1]
	fs := flag.NewFlagSet("hx", flag.ExitOnError)
	tier := fs.String("tier", "quick", "quick|thorough")
	seed := fs.Uint64("seed", 1, "seed")
	out := fs.String("out", "", "result file")
	replay := fs.String("replay", "", "replay file")
	fs.Parse(os.Args[2:])
	run, ok := runners[prop]
	if !ok {
		fmt.Fprintln(os.Stderr, "unknown property", prop)
		os.Exit(2)
	}
	cx := &Ctx{Prop: prop, Tier: *tier, Seed: *seed, R: lib.NewRand(*seed), Res: lib.NewResult(prop, *tier, *seed), Replay: *replay, Start: time.Now()}
	run(cx)
	if cx.model != nil {
		cx.model.Close()
	}
	if *out != "" {
		if err := cx.Res.Write(*out); err != nil {
			fmt.Fprintln(os.Stderr, err)
			os.Exit(3)
		}
	}
	fmt.Printf("hx %s: evaluations=%d distinct=%d corr=%d failures=%d\n", prop, cx.Res.Evaluations, cx.Res.Distinct, cx.Res.CorrChecked, len(cx.Res.Failures))
}

// replayInput reads the "input" field of a replay file written by bin/check.
func replayInput(path string) string {
	b, err := os.ReadFile(path)
	if err != nil {
		fmt.Fprintln(os.Stderr, err)
		os.Exit(3)
	}
	var m map[string]interface{}
	if err := json.Unmarshal(b, &m); err != nil {
		fmt.Fprintln(os.Stderr, err)
		os.Exit(3)
	}
	s, _ := m["input"].(string)
	return s
}
