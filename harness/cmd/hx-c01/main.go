package main

import (
	"os"

	"hx/lib"
	_ "hx/props/c01"
)

func main() { lib.Main(os.Args[1:]) }
