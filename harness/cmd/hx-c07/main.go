// hx-c07: development build of the C07 runner alone.
package main

import (
	"os"

	"hx/lib"
	_ "hx/props/c07"
)

func main() { lib.Main(os.Args[1:]) }
