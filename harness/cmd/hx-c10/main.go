package main

import (
	"os"

	"hx/lib"
	_ "hx/props/c10"
)

func main() { lib.Main(os.Args[1:]) }
