package main

import (
	"fmt"

	"github.com/hashicorp/hcl/v2"
	"github.com/hashicorp/hcl/v2/gohcl"
	"github.com/hashicorp/hcl/v2/hclsyntax"
	"github.com/hashicorp/hcl/v2/hclwrite"
	"github.com/hashicorp/hcl/v2/json"
	"github.com/zclconf/go-cty/cty"
)

type A struct {
	S  string     `hcl:"s"`
	V  cty.Value  `hcl:"v,optional"`
	PV *cty.Value `hcl:"pv"`
	L  []string   `hcl:"l"`
	M  map[string]string `hcl:"m"`
	F float64 `hcl:"f"`
}

func try(name string, f func()) {
	defer func() {
		if r := recover(); r != nil {
			fmt.Println(name, "PANIC:", r)
		}
	}()
	f()
}

func rt(a A) {
	try("rt", func() {
		f := hclwrite.NewEmptyFile()
		gohcl.EncodeIntoBody(&a, f.Body())
		src := f.Bytes()
		fmt.Printf("SRC:\n%s", src)
		pf, d := hclsyntax.ParseConfig(src, "x.hcl", hcl.InitialPos)
		fmt.Println("parse diags:", d)
		var b A
		d = gohcl.DecodeBody(pf.Body, nil, &b)
		fmt.Println("decode diags:", d)
		fmt.Printf("%#v\n", b)
		if b.PV != nil {
			fmt.Printf("pv=%#v\n", *b.PV)
		}
	})
}

func main() {
	v := cty.StringVal("x")
	rt(A{S: "é \xff\xfe x", V: cty.NullVal(cty.String), PV: &v, L: nil, M: nil, F: 5e-324})
	rt(A{S: "a", V: cty.NilVal, L: []string{}, M: map[string]string{}})
	rt(A{S: "a", V: cty.ListVal([]cty.Value{cty.StringVal("a")}), L: []string{"$${", "%%{", " ", "\x7f", "\U0001F600", "\u0000"}, M: map[string]string{"": "e", "a b": "1", "a.b": "2", "if": "x"}, F: -0.0})
	// marked / unknown ctx
	try("ctx", func() {
		pf, _ := hclsyntax.ParseConfig([]byte("s = m\nl = [u]\nm = {a = d}\nf = 1\n"), "x.hcl", hcl.InitialPos)
		ctx := &hcl.EvalContext{Variables: map[string]cty.Value{"m": cty.StringVal("q").Mark("x"), "u": cty.UnknownVal(cty.String), "d": cty.DynamicVal}}
		var b A
		d := gohcl.DecodeBody(pf.Body, ctx, &b)
		fmt.Println("decode diags:", d)
		fmt.Printf("%#v\n", b)
	})
	try("json", func() {
		pf, d := json.Parse([]byte(`{"s": "é${"}`), "x.json")
		fmt.Println(d)
		var b A
		d = gohcl.DecodeBody(pf.Body, nil, &b)
		fmt.Println("decode diags:", d)
		fmt.Printf("%#v\n", b)
	})
}
