package main

import (
	"fmt"
	"math/big"

	"github.com/zclconf/go-cty/cty"
)

func main() {
	a := cty.NumberFloatVal(0.3)
	b := cty.MustParseNumberVal("0.299999999999999988897769753748434595763683319091796875")
	fmt.Println(a.RawEquals(b), a.Equals(b), a.AsBigFloat().Cmp(b.AsBigFloat()))
	fmt.Println(b.AsBigFloat().Text('p', 0), a.AsBigFloat().Text('p', 0))
	f, _, _ := big.ParseFloat("0.299999999999999988897769753748434595763683319091796875", 10, 512, big.ToNearestEven)
	fmt.Println(f.Acc(), f.Text('p', 0))
	f, _, _ = big.ParseFloat("0.1000000000000000055511151231257827021181583404541015625", 10, 512, big.ToNearestEven)
	fmt.Println(f.Acc(), f.Text('p', 0), f.Cmp(big.NewFloat(0.1)))
	f, _, _ = big.ParseFloat("0.375", 10, 512, big.ToNearestEven)
	fmt.Println(f.Acc(), f.Text('p', 0), f.Cmp(big.NewFloat(0.375)))
	f, _, _ = big.ParseFloat("0.1", 10, 512, big.ToNearestEven)
	g, _, _ := big.ParseFloat(f.Text('f', -1), 10, 512, big.ToNearestEven)
	fmt.Println(f.Cmp(g), f.Text('f', -1))
	f, _, _ = big.ParseFloat("3.14159", 10, 512, big.ToNearestEven)
	g, _, _ = big.ParseFloat(f.Text('f', -1), 10, 512, big.ToNearestEven)
	fmt.Println(f.Cmp(g), f.Text('f', -1))
}
