// hx-c18: the hx command with only property C18 linked in (for isolated development builds).
package main

import (
	"os"

	"hx/lib"
	_ "hx/props/c18"
)

func main() { lib.Main(os.Args[1:]) }
