// hx-c15: stand-alone build of the C15 runner (development convenience; cmd/hx links every property).
package main

import (
	"os"

	"hx/lib"
	_ "hx/props/c15"
)

func main() { lib.Main(os.Args[1:]) }
