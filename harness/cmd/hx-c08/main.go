// hx-c08: the hx command with only property C08 linked in (for isolated development builds).
package main

import (
	"os"

	"hx/lib"
	_ "hx/props/c08"
)

func main() { lib.Main(os.Args[1:]) }
