// hx-c16: development build with only the C16 runner.
package main

import (
	"os"

	"hx/lib"
	_ "hx/props/c16"
)

func main() { lib.Main(os.Args[1:]) }
