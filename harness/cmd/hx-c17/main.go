// hx-c17: development build with only the C17 runner (HX_PPROF=file writes a CPU profile).
package main

import (
	"os"
	"runtime/pprof"

	"hx/lib"
	_ "hx/props/c17"
)

func main() {
	if p := os.Getenv("HX_PPROF"); p != "" && os.Getenv("HX_RACE_CHILD") == "" {
		f, err := os.Create(p)
		if err == nil {
			_ = pprof.StartCPUProfile(f)
			defer pprof.StopCPUProfile()
		}
	}
	lib.Main(os.Args[1:])
}
