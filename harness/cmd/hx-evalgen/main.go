// hx-evalgen: development tool that prints the distribution of the shared typed generator.
package main

import (
	"encoding/json"
	"fmt"

	"github.com/hashicorp/hcl/v2"

	"github.com/hashicorp/hcl/v2/ext/dynblock"
	"github.com/hashicorp/hcl/v2/hcldec"
	"os"
	"sort"
	"strconv"
	"strings"

	"hx/lib"
	"hx/props/evalgen"
)

// evalDoc evaluates a replay document (the "input" of a failure) and prints value and diagnostics of the
// expression and of each of its sub-expressions.
func evalDoc(path string) {
	doc := lib.ReplayInput(path)
	c, cj, err := evalgen.DecodeCase(doc)
	if err != nil {
		fmt.Println("decode:", err)
		return
	}
	if len(os.Args) > 3 && len(cj.Extra) > 0 {
		// overlay the "abs" or "conc" (or any other) scope fragment of the extra part
		var ex map[string]json.RawMessage
		json.Unmarshal(cj.Extra, &ex)
		var frag map[string]*evalgen.EncVal
		if raw, ok := ex["var"]; ok {
			// C06 style: {"var": name, "a": value, "b": value}
			var name string
			json.Unmarshal(raw, &name)
			var one evalgen.EncVal
			json.Unmarshal(ex[os.Args[3]], &one)
			frag = map[string]*evalgen.EncVal{name: &one}
		} else {
			json.Unmarshal(ex[os.Args[3]], &frag)
		}
		over, err := evalgen.DecodeScope(frag)
		if err != nil {
			fmt.Println("overlay:", err)
			return
		}
		for k, v := range over {
			c.Scope[k] = v
			fmt.Println("overlay", k, "=", lib.DumpValue(v))
		}
	}
	var show func(n *lib.Node, ind string)
	show = func(n *lib.Node, ind string) {
		src := evalgen.Source(n)
		e, d := evalgen.Parse(src)
		if d.HasErrors() {
			fmt.Println(ind, src, "=> PARSE", d.Error())
			return
		}
		v, diags, p := evalgen.SafeValue(e, evalgen.Ctx(c.Scope))
		fmt.Println(ind, src, "=>", lib.DumpValue(v), p)
		for _, dd := range diags {
			fmt.Println(ind, "   diag:", dd.Summary, "--", dd.Detail)
		}
		for _, k := range evalgen.SubExprs(n) {
			show(k, ind+"  ")
		}
	}
	if c.Node != nil {
		show(c.Node, "")
	} else {
		v, diags, p := evalgen.SafeValue(c.Expr, evalgen.Ctx(c.Scope))
		fmt.Println(c.Src, "=>", lib.DumpValue(v), p, diags)
	}
}

func main() {
	if len(os.Args) > 2 && os.Args[1] == "eval" {
		evalDoc(os.Args[2])
		return
	}
	if len(os.Args) > 2 && os.Args[1] == "vars" {
		b, _, err := evalgen.DecodeBodyCase(lib.ReplayInput(os.Args[2]))
		if err != nil {
			fmt.Println(err)
			return
		}
		spec := evalgen.BuildSpec(b.Items)
		show := func(name string, ts []hcl.Traversal) {
			m := map[string]bool{}
			for _, t := range ts {
				m[t.RootName()] = true
			}
			var ks []string
			for k := range m {
				ks = append(ks, k)
			}
			sort.Strings(ks)
			fmt.Println(name, ks)
		}
		show("hcldec.Variables          ", hcldec.Variables(b.Body, spec))
		show("dynblock.VariablesHCLDec  ", dynblock.VariablesHCLDec(b.Body, spec))
		show("dynblock.ExpandVariables  ", dynblock.ExpandVariablesHCLDec(b.Body, spec))
		fmt.Println("needed (all)              ", evalgen.BodyFreeRoots(b.Tree, false))
		fmt.Println("needed (expand)           ", evalgen.BodyFreeRoots(b.Tree, true))
		return
	}
	if len(os.Args) > 1 && os.Args[1] == "bodies" {
		bodies()
		return
	}
	n := 3000
	seed := uint64(1)
	if len(os.Args) > 1 {
		n, _ = strconv.Atoi(os.Args[1])
	}
	if len(os.Args) > 2 {
		s, _ := strconv.Atoi(os.Args[2])
		seed = uint64(s)
	}
	R := lib.NewRand(seed)
	res := lib.NewResult("gen", "quick", seed)
	errSummaries := map[string]int{}
	for i := 0; i < n; i++ {
		r := R.Fork()
		c, ok := evalgen.NewCase(r, evalgen.Defaults())
		if !ok {
			res.Count("parse-error")
			if res.Distribution["parse-error"] <= 5 {
				fmt.Println("PARSE ERROR:", c.Src)
			}
			continue
		}
		evalgen.CountStats(res, c.Node)
		v, diags, p := evalgen.SafeValue(c.Expr, evalgen.Ctx(c.Scope))
		if p != "" {
			res.Count("panic")
			fmt.Println("PANIC:", p, "\n  ", c.Src)
			continue
		}
		if diags.HasErrors() {
			res.Count("eval-error")
			for _, d := range diags {
				errSummaries[d.Summary+": "+d.Detail]++
				break
			}
		} else {
			res.Count("eval-ok")
			res.Count("result:" + evalgen.TypeKind(v.Type()))
		}
		if i < 12 {
			fmt.Println(c.Src)
		}
	}
	keys := make([]string, 0)
	for k := range res.Distribution {
		keys = append(keys, k)
	}
	sort.Strings(keys)
	for _, k := range keys {
		fmt.Printf("%-32s %d\n", k, res.Distribution[k])
	}
	type kv struct {
		k string
		v int
	}
	var es []kv
	for k, v := range errSummaries {
		es = append(es, kv{k, v})
	}
	sort.Slice(es, func(i, j int) bool { return es[i].v > es[j].v })
	for i, e := range es {
		if i > 25 {
			break
		}
		fmt.Printf("%5d %s\n", e.v, lib.Trunc(e.k, 160))
	}
}

// bodies prints the distribution of decode diagnostics over generated bodies.
func bodies() {
	R := lib.NewRand(7)
	sums := map[string]int{}
	okc, errc := 0, 0
	for i := 0; i < 1500; i++ {
		r := R.Fork()
		b, ok := evalgen.NewBodyCase(r, evalgen.Defaults(), 55, 0)
		if !ok {
			sums["PARSE"]++
			if sums["PARSE"] < 3 {
				fmt.Println(b.Src)
			}
			continue
		}
		ctx := evalgen.Ctx(b.Scope)
		func() {
			defer func() {
				if r := recover(); r != nil {
					sums["PANIC "+lib.Trunc(fmt.Sprint(r), 60)]++
				}
			}()
			_, diags := hcldec.Decode(dynblock.Expand(b.Body, ctx), evalgen.BuildSpec(b.Items), ctx)
			if diags.HasErrors() {
				errc++
				seen := map[string]bool{}
				for _, d := range diags {
					k := d.Summary + ": " + lib.Trunc(d.Detail, 90)
					if len(os.Args) > 2 && strings.Contains(k, os.Args[2]) && sums["shown"] < 3 {
						sums["shown"]++
						fmt.Println("=====", k, d.Subject)
						fmt.Println(b.Src)
					}
					if !seen[k] {
						sums[k]++
						seen[k] = true
					}
				}
			} else {
				okc++
			}
		}()
	}
	fmt.Println("ok", okc, "err", errc)
	type kv struct {
		k string
		v int
	}
	var es []kv
	for k, v := range sums {
		es = append(es, kv{k, v})
	}
	sort.Slice(es, func(i, j int) bool { return es[i].v > es[j].v })
	for i, e := range es {
		if i > 30 {
			break
		}
		fmt.Printf("%5d %s\n", e.v, e.k)
	}
}
