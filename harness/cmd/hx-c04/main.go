package main

import (
	"os"

	"hx/lib"
	_ "hx/props/c04"
)

func main() { lib.Main(os.Args[1:]) }
