// hx-c14: stand-alone build of the C14 runner (development convenience; cmd/hx links every property).
package main

import (
	"os"

	"hx/lib"
	_ "hx/props/c14"
)

func main() { lib.Main(os.Args[1:]) }
