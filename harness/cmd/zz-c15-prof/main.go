package main

import (
	"os"
	"runtime/pprof"

	"hx/lib"
	_ "hx/props/c15"
)

func main() {
	f, _ := os.Create("/tmp/c15.prof")
	pprof.StartCPUProfile(f)
	lib.Main(os.Args[1:])
	pprof.StopCPUProfile()
	f.Close()
}
