// hx-c05: development build of the C05 runner alone.
package main

import (
	"os"

	"hx/lib"
	_ "hx/props/c05"
)

func main() { lib.Main(os.Args[1:]) }
