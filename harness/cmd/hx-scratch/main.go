// hx-scratch: throwaway experiments (not part of the harness).
package main

import (
	"fmt"

	"github.com/zclconf/go-cty/cty"
	"github.com/zclconf/go-cty/cty/convert"
)

func main() {
	for _, z := range []cty.Value{cty.NullVal(cty.String).Mark("secret"), cty.StringVal("q").Mark("secret"), cty.NullVal(cty.String)} {
		in := cty.ObjectVal(map[string]cty.Value{"name": z, "tags": cty.EmptyTupleVal})
		out, err := convert.Convert(in, cty.Object(map[string]cty.Type{"name": cty.String, "tags": cty.List(cty.String)}))
		fmt.Printf("%#v %v\n", out, err)
	}
}
