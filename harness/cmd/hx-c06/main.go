// hx-c06: development build of the C06 runner alone.
package main

import (
	"os"

	"hx/lib"
	_ "hx/props/c06"
)

func main() { lib.Main(os.Args[1:]) }
