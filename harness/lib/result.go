package lib

import (
	"encoding/json"
	"os"
	"sort"
)

// Failure is one property violation on the implementation (Kind "oracle"), one model/implementation
// disagreement (Kind "corr"), or a crash.
type Failure struct {
	Kind  string      `json:"kind"`
	Key   string      `json:"key"` // stable signature of the defect class (used by known_findings.json)
	Desc  string      `json:"desc"`
	Input interface{} `json:"input"`
	Model string      `json:"model,omitempty"`
	Impl  string      `json:"impl,omitempty"`
}

// Result is what a harness run reports to bin/check.
type Result struct {
	Property     string         `json:"property"`
	Tier         string         `json:"tier"`
	Seed         uint64         `json:"seed"`
	Evaluations  int            `json:"evaluations"`
	Distinct     int            `json:"distinct_nontrivial"`
	Rule         string         `json:"rule"`
	Samples      []interface{}  `json:"samples"`
	Distribution map[string]int `json:"distribution"`
	CorrChecked  int            `json:"corr_checked"`
	Exhaustive   map[string]int `json:"exhaustive,omitempty"`
	Failures     []Failure      `json:"failures"`
	Notes        []string       `json:"notes,omitempty"`
	distinct     map[string]bool
	failKeys     map[string]int
	MaxPerKey    int `json:"-"`
}

func NewResult(prop, tier string, seed uint64) *Result {
	return &Result{Property: prop, Tier: tier, Seed: seed, Distribution: map[string]int{},
		distinct: map[string]bool{}, failKeys: map[string]int{}, Failures: []Failure{}, Samples: []interface{}{}, MaxPerKey: 3}
}

// Case counts one evaluation; canon identifies the case, nontrivial says whether it counts as such.
func (r *Result) Case(canon string, nontrivial bool) {
	r.Evaluations++
	if nontrivial && !r.distinct[canon] {
		r.distinct[canon] = true
		r.Distinct++
	}
}

func (r *Result) Count(k string) { r.Distribution[k]++ }

func (r *Result) Sample(x interface{}) {
	if len(r.Samples) < 6 {
		r.Samples = append(r.Samples, x)
	}
}

// Fail records a failure, keeping at most MaxPerKey examples per defect signature.
func (r *Result) Fail(f Failure) {
	r.failKeys[f.Kind+"|"+f.Key]++
	if r.failKeys[f.Kind+"|"+f.Key] <= r.MaxPerKey {
		r.Failures = append(r.Failures, f)
	}
}

func (r *Result) Write(path string) error {
	r.Notes = append(r.Notes, "failure counts per signature:")
	keys := make([]string, 0, len(r.failKeys))
	for k := range r.failKeys {
		keys = append(keys, k)
	}
	sort.Strings(keys)
	for _, k := range keys {
		r.Distribution["fail:"+k] = r.failKeys[k]
	}
	b, err := json.MarshalIndent(r, "", " ")
	if err != nil {
		return err
	}
	return os.WriteFile(path, b, 0o644)
}
