package lib

import (
	"fmt"
	"go/ast"
	"go/parser"
	"go/token"
	"io"
	"os"
	"sort"
	"strings"
)

// Skeleton translator (C15): reads the recursive-descent parser's Go source and emits, for every
// function, its push/pop control skeleton in the Lean IR `HclModel.Skel.Stmt`.
//
//	PushIncludeNewlines(..)          -> push
//	PopIncludeNewlines()             -> pop
//	defer PopIncludeNewlines()       -> a pop before every later return and at the end of the function
//	AssertEmptyIncludeNewlinesStack  -> choice ret skip   (the depth must be the entry depth there)
//	call of a translated function    -> call i
//	if / switch / type switch        -> choice (switch bodies are breakable blocks `blk`)
//	for / range                      -> loop
//	break / continue [label]         -> brk n / cont n  (n = enclosing breakable constructs skipped)
//	return                           -> ret,  panic(..) -> abort
//
// Anything it does not understand (goto, select, go, a defer of something that touches the stack,
// a push/pop inside a function literal) is an error: the obligation cannot be regenerated.

type skelFn struct {
	name string
	decl *ast.FuncDecl
}

type skelTr struct {
	fset    *token.FileSet
	fnIndex map[string]int
	// per function
	deferPops int
	stack     []skelFrame // enclosing breakable constructs, innermost last
	err       error
}

type skelFrame struct {
	label  string
	isLoop bool
}

func (t *skelTr) fail(n ast.Node, msg string) {
	if t.err == nil {
		t.err = fmt.Errorf("%s: %s", t.fset.Position(n.Pos()), msg)
	}
}

func seqOf(xs []string) string {
	var ys []string
	for _, x := range xs {
		if x != ".skip" {
			ys = append(ys, x)
		}
	}
	if len(ys) == 0 {
		return ".skip"
	}
	out := ys[len(ys)-1]
	for i := len(ys) - 2; i >= 0; i-- {
		out = "(.seq " + ys[i] + " " + out + ")"
	}
	return out
}

func choiceOf(xs []string) string {
	seen := map[string]bool{}
	var ys []string
	for _, x := range xs {
		if !seen[x] {
			seen[x] = true
			ys = append(ys, x)
		}
	}
	out := ys[len(ys)-1]
	for i := len(ys) - 2; i >= 0; i-- {
		out = "(.choice " + ys[i] + " " + out + ")"
	}
	return out
}

// calls lists, in source order, the stack-relevant calls inside an expression or simple statement.
func (t *skelTr) calls(n ast.Node) []string {
	var out []string
	if n == nil {
		return out
	}
	ast.Inspect(n, func(x ast.Node) bool {
		switch c := x.(type) {
		case *ast.FuncLit:
			// a closure must not touch the stack or call parser functions
			bad := false
			ast.Inspect(c.Body, func(y ast.Node) bool {
				if ce, ok := y.(*ast.CallExpr); ok {
					if nm := callName(ce); nm == "PushIncludeNewlines" || nm == "PopIncludeNewlines" {
						bad = true
					} else if _, ok := t.fnIndex[nm]; ok {
						bad = true
					}
				}
				return true
			})
			if bad {
				t.fail(c, "function literal touches the newline stack or calls a parser function")
			}
			return false
		case *ast.CallExpr:
			// arguments are evaluated before the call
			for _, a := range c.Args {
				out = append(out, t.calls(a)...)
			}
			if se, ok := c.Fun.(*ast.SelectorExpr); ok {
				out = append(out, t.calls(se.X)...)
			} else if fl, ok := c.Fun.(*ast.FuncLit); ok {
				out = append(out, t.calls(fl)...)
			}
			switch nm := callName(c); nm {
			case "PushIncludeNewlines":
				out = append(out, ".push")
			case "PopIncludeNewlines":
				out = append(out, ".pop")
			case "AssertEmptyIncludeNewlinesStack":
				out = append(out, "(.choice .ret .skip)")
			case "panic":
				out = append(out, ".abort")
			default:
				if i, ok := t.fnIndex[nm]; ok {
					out = append(out, fmt.Sprintf("(.call %d)", i))
				}
			}
			return false
		}
		return true
	})
	return out
}

func callName(c *ast.CallExpr) string {
	switch f := c.Fun.(type) {
	case *ast.SelectorExpr:
		return f.Sel.Name
	case *ast.Ident:
		return f.Name
	}
	return ""
}

func (t *skelTr) ret() string {
	xs := []string{}
	for i := 0; i < t.deferPops; i++ {
		xs = append(xs, ".pop")
	}
	xs = append(xs, ".ret")
	return seqOf(xs)
}

func (t *skelTr) block(stmts []ast.Stmt) string {
	var xs []string
	for _, s := range stmts {
		xs = append(xs, t.stmt(s, ""))
	}
	return seqOf(xs)
}

func (t *skelTr) target(label string, wantLoop bool, n ast.Node) int {
	for i := len(t.stack) - 1; i >= 0; i-- {
		f := t.stack[i]
		if label != "" {
			if f.label == label {
				return len(t.stack) - 1 - i
			}
			continue
		}
		if !wantLoop || f.isLoop {
			return len(t.stack) - 1 - i
		}
	}
	t.fail(n, "break/continue target not found")
	return 0
}

func (t *skelTr) stmt(s ast.Stmt, label string) string {
	switch x := s.(type) {
	case nil:
		return ".skip"
	case *ast.BlockStmt:
		return t.block(x.List)
	case *ast.LabeledStmt:
		return t.stmt(x.Stmt, x.Label.Name)
	case *ast.ExprStmt, *ast.AssignStmt, *ast.DeclStmt, *ast.IncDecStmt, *ast.SendStmt:
		return seqOf(t.calls(s))
	case *ast.EmptyStmt:
		return ".skip"
	case *ast.ReturnStmt:
		return seqOf(append(t.calls(s), t.ret()))
	case *ast.DeferStmt:
		switch callName(x.Call) {
		case "PopIncludeNewlines":
			if len(t.stack) != 0 {
				t.fail(s, "defer PopIncludeNewlines inside a loop or switch is not supported")
			}
			t.deferPops++
			return ".skip"
		default:
			if len(t.calls(x.Call)) != 0 {
				t.fail(s, "defer of a call that touches the newline stack")
			}
			return ".skip"
		}
	case *ast.IfStmt:
		pre := append(t.calls2(x.Init), t.calls(x.Cond)...)
		a := t.block(x.Body.List)
		b := ".skip"
		if x.Else != nil {
			b = t.stmt(x.Else, "")
		}
		return seqOf(append(pre, choiceOf([]string{a, b})))
	case *ast.SwitchStmt:
		pre := append(t.calls2(x.Init), t.calls(x.Tag)...)
		return seqOf(append(pre, t.switchBody(x.Body, label)))
	case *ast.TypeSwitchStmt:
		pre := append(t.calls2(x.Init), t.calls2(x.Assign)...)
		return seqOf(append(pre, t.switchBody(x.Body, label)))
	case *ast.ForStmt:
		pre := t.calls2(x.Init)
		t.stack = append(t.stack, skelFrame{label: label, isLoop: true})
		body := seqOf([]string{seqOf(t.calls(x.Cond)), t.block(x.Body.List), seqOf(t.calls2(x.Post))})
		t.stack = t.stack[:len(t.stack)-1]
		return seqOf(append(pre, "(.loop "+body+")"))
	case *ast.RangeStmt:
		pre := t.calls(x.X)
		t.stack = append(t.stack, skelFrame{label: label, isLoop: true})
		body := t.block(x.Body.List)
		t.stack = t.stack[:len(t.stack)-1]
		return seqOf(append(pre, "(.loop "+body+")"))
	case *ast.BranchStmt:
		lbl := ""
		if x.Label != nil {
			lbl = x.Label.Name
		}
		switch x.Tok {
		case token.BREAK:
			return fmt.Sprintf("(.brk %d)", t.target(lbl, false, s))
		case token.CONTINUE:
			return fmt.Sprintf("(.cont %d)", t.target(lbl, true, s))
		case token.FALLTHROUGH:
			return "FALLTHROUGH"
		default:
			t.fail(s, "goto is not supported")
			return ".skip"
		}
	default:
		t.fail(s, fmt.Sprintf("unsupported statement %T", s))
		return ".skip"
	}
}

func (t *skelTr) calls2(s ast.Stmt) []string {
	if s == nil {
		return nil
	}
	return t.calls(s)
}

func (t *skelTr) switchBody(body *ast.BlockStmt, label string) string {
	t.stack = append(t.stack, skelFrame{label: label, isLoop: false})
	n := len(body.List)
	clauses := make([]string, n)
	hasDefault := false
	var pre []string
	for i := n - 1; i >= 0; i-- {
		cc := body.List[i].(*ast.CaseClause)
		if cc.List == nil {
			hasDefault = true
		}
		for _, e := range cc.List {
			pre = append(pre, t.calls(e)...)
		}
		var xs []string
		ft := false
		for _, s := range cc.Body {
			r := t.stmt(s, "")
			if r == "FALLTHROUGH" {
				ft = true
				continue
			}
			xs = append(xs, r)
		}
		if ft {
			if i+1 >= n {
				t.fail(cc, "fallthrough in the last clause")
			} else {
				xs = append(xs, clauses[i+1])
			}
		}
		clauses[i] = seqOf(xs)
	}
	t.stack = t.stack[:len(t.stack)-1]
	alts := clauses
	if !hasDefault {
		alts = append(alts, ".skip")
	}
	if len(alts) == 0 {
		alts = []string{".skip"}
	}
	return seqOf(append(pre, "(.blk "+choiceOf(alts)+")"))
}

// GenParserSkel writes HclModel/Gen/ParserSkel.lean from the current parser sources.
func GenParserSkel(w io.Writer) error {
	root := os.Getenv("HCL_REPO")
	if root == "" {
		root = "/repo"
	}
	files := []string{"parser.go", "parser_template.go", "parser_traversal.go", "public.go"}
	fset := token.NewFileSet()
	var fns []skelFn
	for _, f := range files {
		af, err := parser.ParseFile(fset, root+"/hclsyntax/"+f, nil, 0)
		if err != nil {
			return err
		}
		for _, d := range af.Decls {
			if fd, ok := d.(*ast.FuncDecl); ok && fd.Body != nil {
				name := fd.Name.Name
				fns = append(fns, skelFn{name: name, decl: fd})
			}
		}
	}
	sort.SliceStable(fns, func(i, j int) bool { return fns[i].name < fns[j].name })
	idx := map[string]int{}
	for i, f := range fns {
		if _, dup := idx[f.name]; dup {
			// same method name on two receivers (parser / templateParser): keep both bodies, calls go to the first;
			// both are checked for balance, which is all the call summary assumes.
			continue
		}
		idx[f.name] = i
	}
	sites := 0
	var bodies []string
	for _, f := range fns {
		t := &skelTr{fset: fset, fnIndex: idx}
		body := t.block(f.decl.Body.List)
		if t.err != nil {
			return t.err
		}
		xs := []string{body}
		for i := 0; i < t.deferPops; i++ {
			xs = append(xs, ".pop")
		}
		full := seqOf(xs)
		sites += strings.Count(full, ".push") + strings.Count(full, ".pop")
		bodies = append(bodies, full)
	}
	fmt.Fprintf(w, "import HclModel.Skel.IR\n/-! REGENERATED by `hx gen -table ParserSkel` from hclsyntax/{parser,parser_template,parser_traversal,public}.go — do not edit. -/\nnamespace HclModel.Gen\nopen HclModel.Skel\n\n")
	fmt.Fprintf(w, "def parserSkelNames : List String := [")
	for i, f := range fns {
		if i > 0 {
			fmt.Fprint(w, ", ")
		}
		fmt.Fprintf(w, "%q", f.name)
	}
	fmt.Fprintf(w, "]\n\n/-- push/pop sites in the skeleton -/\ndef parserSkelSites : Nat := %d\n\n", sites)
	for i, b := range bodies {
		fmt.Fprintf(w, "/-- %s -/\ndef skel%d : Stmt := %s\n\n", fns[i].name, i, b)
	}
	fmt.Fprintf(w, "def parserSkel : List Stmt := [")
	for i := range bodies {
		if i > 0 {
			fmt.Fprint(w, ", ")
		}
		fmt.Fprintf(w, "skel%d", i)
	}
	fmt.Fprintf(w, "]\n\nend HclModel.Gen\n")
	return nil
}

// Gens is the registry of regenerated model parameters (`hx gen -table NAME -o FILE`).
var Gens = map[string]func(io.Writer) error{
	"ParserSkel": GenParserSkel,
}
