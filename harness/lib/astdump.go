package lib

import (
	"fmt"
	"math/big"
	"sort"
	"strings"

	"github.com/hashicorp/hcl/v2"
	"github.com/hashicorp/hcl/v2/hclsyntax"
	"github.com/zclconf/go-cty/cty"
)

// DumpExpr renders a native-syntax expression as an s-expression without source ranges.
// With stripParens, ParenthesesExpr nodes are removed.
func DumpExpr(e hclsyntax.Expression, stripParens bool) string {
	var sb strings.Builder
	dumpExpr(&sb, e, stripParens)
	return sb.String()
}

func dumpTraverser(sb *strings.Builder, t hcl.Traverser) {
	switch tt := t.(type) {
	case hcl.TraverseRoot:
		fmt.Fprintf(sb, "(root %s)", hexs(tt.Name))
	case hcl.TraverseAttr:
		fmt.Fprintf(sb, "(attr %s)", hexs(tt.Name))
	case hcl.TraverseIndex:
		fmt.Fprintf(sb, "(idx %s)", DumpValue(tt.Key))
	case hcl.TraverseSplat:
		sb.WriteString("(splat)")
	default:
		fmt.Fprintf(sb, "(?trav %T)", t)
	}
}

// DumpTraversal renders a traversal.
func DumpTraversal(t hcl.Traversal) string {
	var sb strings.Builder
	sb.WriteString("(trav")
	for _, s := range t {
		sb.WriteString(" ")
		dumpTraverser(&sb, s)
	}
	sb.WriteString(")")
	return sb.String()
}

func dumpExpr(sb *strings.Builder, e hclsyntax.Expression, sp bool) {
	switch x := e.(type) {
	case nil:
		sb.WriteString("nil")
	case *hclsyntax.ParenthesesExpr:
		if sp {
			dumpExpr(sb, x.Expression, sp)
		} else {
			sb.WriteString("(paren ")
			dumpExpr(sb, x.Expression, sp)
			sb.WriteString(")")
		}
	case *hclsyntax.LiteralValueExpr:
		sb.WriteString("(lit " + DumpValue(x.Val) + ")")
	case *hclsyntax.ScopeTraversalExpr:
		sb.WriteString("(scope " + DumpTraversal(x.Traversal) + ")")
	case *hclsyntax.RelativeTraversalExpr:
		sb.WriteString("(rel ")
		dumpExpr(sb, x.Source, sp)
		sb.WriteString(" " + DumpTraversal(x.Traversal) + ")")
	case *hclsyntax.FunctionCallExpr:
		fmt.Fprintf(sb, "(call %s %v", hexs(x.Name), x.ExpandFinal)
		for _, a := range x.Args {
			sb.WriteString(" ")
			dumpExpr(sb, a, sp)
		}
		sb.WriteString(")")
	case *hclsyntax.ConditionalExpr:
		sb.WriteString("(cond ")
		dumpExpr(sb, x.Condition, sp)
		sb.WriteString(" ")
		dumpExpr(sb, x.TrueResult, sp)
		sb.WriteString(" ")
		dumpExpr(sb, x.FalseResult, sp)
		sb.WriteString(")")
	case *hclsyntax.IndexExpr:
		sb.WriteString("(index ")
		dumpExpr(sb, x.Collection, sp)
		sb.WriteString(" ")
		dumpExpr(sb, x.Key, sp)
		sb.WriteString(")")
	case *hclsyntax.TupleConsExpr:
		sb.WriteString("(tuple")
		for _, a := range x.Exprs {
			sb.WriteString(" ")
			dumpExpr(sb, a, sp)
		}
		sb.WriteString(")")
	case *hclsyntax.ObjectConsExpr:
		sb.WriteString("(object")
		for _, it := range x.Items {
			sb.WriteString(" (")
			dumpExpr(sb, it.KeyExpr, sp)
			sb.WriteString(" ")
			dumpExpr(sb, it.ValueExpr, sp)
			sb.WriteString(")")
		}
		sb.WriteString(")")
	case *hclsyntax.ObjectConsKeyExpr:
		fmt.Fprintf(sb, "(key %v ", x.ForceNonLiteral)
		dumpExpr(sb, x.Wrapped, sp)
		sb.WriteString(")")
	case *hclsyntax.ForExpr:
		fmt.Fprintf(sb, "(for %s %s %v ", hexs(x.KeyVar), hexs(x.ValVar), x.Group)
		dumpExpr(sb, x.CollExpr, sp)
		sb.WriteString(" ")
		dumpExpr(sb, x.KeyExpr, sp)
		sb.WriteString(" ")
		dumpExpr(sb, x.ValExpr, sp)
		sb.WriteString(" ")
		dumpExpr(sb, x.CondExpr, sp)
		sb.WriteString(")")
	case *hclsyntax.SplatExpr:
		sb.WriteString("(splat ")
		dumpExpr(sb, x.Source, sp)
		sb.WriteString(" ")
		dumpExpr(sb, x.Each, sp)
		sb.WriteString(")")
	case *hclsyntax.AnonSymbolExpr:
		sb.WriteString("(anon)")
	case *hclsyntax.BinaryOpExpr:
		sb.WriteString("(binop " + hclsyntax.VerifOpName(x.Op) + " ")
		dumpExpr(sb, x.LHS, sp)
		sb.WriteString(" ")
		dumpExpr(sb, x.RHS, sp)
		sb.WriteString(")")
	case *hclsyntax.UnaryOpExpr:
		sb.WriteString("(unop " + hclsyntax.VerifOpName(x.Op) + " ")
		dumpExpr(sb, x.Val, sp)
		sb.WriteString(")")
	case *hclsyntax.TemplateExpr:
		sb.WriteString("(template")
		for _, p := range x.Parts {
			sb.WriteString(" ")
			dumpExpr(sb, p, sp)
		}
		sb.WriteString(")")
	case *hclsyntax.TemplateJoinExpr:
		sb.WriteString("(tjoin ")
		dumpExpr(sb, x.Tuple, sp)
		sb.WriteString(")")
	case *hclsyntax.TemplateWrapExpr:
		sb.WriteString("(twrap ")
		dumpExpr(sb, x.Wrapped, sp)
		sb.WriteString(")")
	case *hclsyntax.ExprSyntaxError:
		sb.WriteString("(syntaxerror)")
	default:
		fmt.Fprintf(sb, "(?expr %T)", e)
	}
}

// DumpBody renders a native body (attributes sorted by name, blocks in order).
func DumpBody(b *hclsyntax.Body, sp bool) string {
	var sb strings.Builder
	dumpBody(&sb, b, sp)
	return sb.String()
}

func dumpBody(sb *strings.Builder, b *hclsyntax.Body, sp bool) {
	sb.WriteString("(body")
	names := make([]string, 0, len(b.Attributes))
	for n := range b.Attributes {
		names = append(names, n)
	}
	sort.Strings(names)
	for _, n := range names {
		fmt.Fprintf(sb, " (attr %s ", hexs(n))
		dumpExpr(sb, b.Attributes[n].Expr, sp)
		sb.WriteString(")")
	}
	for _, blk := range b.Blocks {
		fmt.Fprintf(sb, " (block %s (", hexs(blk.Type))
		for i, l := range blk.Labels {
			if i > 0 {
				sb.WriteString(" ")
			}
			sb.WriteString(hexs(l))
		}
		sb.WriteString(") ")
		dumpBody(sb, blk.Body, sp)
		sb.WriteString(")")
	}
	sb.WriteString(")")
}

// RatString renders a cty number exactly as "p/q" (or "inf"/"-inf").
func RatString(f *big.Float) string {
	if f.IsInf() {
		if f.Sign() < 0 {
			return "-inf"
		}
		return "inf"
	}
	r, _ := f.Rat(nil)
	if r.IsInt() {
		return r.Num().String()
	}
	return r.Num().String() + "/" + r.Denom().String()
}

// DumpType renders a cty type.
func DumpType(t cty.Type) string {
	switch {
	case t == cty.String:
		return "string"
	case t == cty.Number:
		return "number"
	case t == cty.Bool:
		return "bool"
	case t == cty.DynamicPseudoType:
		return "dyn"
	case t.IsListType():
		return "(list " + DumpType(t.ElementType()) + ")"
	case t.IsSetType():
		return "(set " + DumpType(t.ElementType()) + ")"
	case t.IsMapType():
		return "(map " + DumpType(t.ElementType()) + ")"
	case t.IsTupleType():
		var sb strings.Builder
		sb.WriteString("(tuple")
		for _, et := range t.TupleElementTypes() {
			sb.WriteString(" " + DumpType(et))
		}
		sb.WriteString(")")
		return sb.String()
	case t.IsObjectType():
		var sb strings.Builder
		sb.WriteString("(object")
		atys := t.AttributeTypes()
		names := make([]string, 0, len(atys))
		for n := range atys {
			names = append(names, n)
		}
		sort.Strings(names)
		for _, n := range names {
			opt := ""
			if t.AttributeOptional(n) {
				opt = "?"
			}
			sb.WriteString(" (" + hexs(n) + opt + " " + DumpType(atys[n]) + ")")
		}
		sb.WriteString(")")
		return sb.String()
	case t.IsCapsuleType():
		return "(capsule " + hexs(t.FriendlyName()) + ")"
	}
	return "(?type)"
}

// DumpValue renders a cty value exactly: types, nulls, unknowns with refinements, marks at every level.
func DumpValue(v cty.Value) string {
	var sb strings.Builder
	dumpValue(&sb, v)
	return sb.String()
}

func dumpValue(sb *strings.Builder, v cty.Value) {
	if v == cty.NilVal {
		sb.WriteString("nilval")
		return
	}
	if v.IsMarked() {
		uv, marks := v.Unmark()
		names := []string{}
		for m := range marks {
			names = append(names, hexs(fmt.Sprintf("%v", m)))
		}
		sort.Strings(names)
		sb.WriteString("(mark (" + strings.Join(names, " ") + ") ")
		dumpValue(sb, uv)
		sb.WriteString(")")
		return
	}
	t := v.Type()
	if !v.IsKnown() {
		sb.WriteString("(unk " + DumpType(t))
		dumpRefinements(sb, v)
		sb.WriteString(")")
		return
	}
	if v.IsNull() {
		sb.WriteString("(null " + DumpType(t) + ")")
		return
	}
	switch {
	case t == cty.String:
		sb.WriteString("(str " + hexs(v.AsString()) + ")")
	case t == cty.Number:
		sb.WriteString("(num " + RatString(v.AsBigFloat()) + ")")
	case t == cty.Bool:
		if v.True() {
			sb.WriteString("true")
		} else {
			sb.WriteString("false")
		}
	case t.IsListType() || t.IsSetType():
		k := "list"
		if t.IsSetType() {
			k = "set"
		}
		sb.WriteString("(" + k + " " + DumpType(t.ElementType()))
		for it := v.ElementIterator(); it.Next(); {
			_, ev := it.Element()
			sb.WriteString(" ")
			dumpValue(sb, ev)
		}
		sb.WriteString(")")
	case t.IsTupleType():
		sb.WriteString("(tup")
		for it := v.ElementIterator(); it.Next(); {
			_, ev := it.Element()
			sb.WriteString(" ")
			dumpValue(sb, ev)
		}
		sb.WriteString(")")
	case t.IsMapType() || t.IsObjectType():
		if t.IsMapType() {
			sb.WriteString("(map " + DumpType(t.ElementType()))
		} else {
			sb.WriteString("(obj")
		}
		for it := v.ElementIterator(); it.Next(); {
			kv, ev := it.Element()
			sb.WriteString(" (" + hexs(kv.AsString()) + " ")
			dumpValue(sb, ev)
			sb.WriteString(")")
		}
		sb.WriteString(")")
	case t.IsCapsuleType():
		sb.WriteString("(capsuleval)")
	default:
		sb.WriteString("(?val)")
	}
}

func dumpRefinements(sb *strings.Builder, v cty.Value) {
	if v.Type() == cty.DynamicPseudoType {
		return
	}
	rng := v.Range()
	if rng.DefinitelyNotNull() {
		sb.WriteString(" notnull")
	}
	t := v.Type()
	switch {
	case t == cty.String:
		if p := rng.StringPrefix(); p != "" {
			sb.WriteString(" (prefix " + hexs(p) + ")")
		}
	case t == cty.Number:
		lo, loInc := rng.NumberLowerBound()
		hi, hiInc := rng.NumberUpperBound()
		if lo.IsKnown() && !lo.RawEquals(cty.NegativeInfinity) {
			fmt.Fprintf(sb, " (lo %s %v)", RatString(lo.AsBigFloat()), loInc)
		}
		if hi.IsKnown() && !hi.RawEquals(cty.PositiveInfinity) {
			fmt.Fprintf(sb, " (hi %s %v)", RatString(hi.AsBigFloat()), hiInc)
		}
	case t.IsCollectionType():
		lo := rng.LengthLowerBound()
		hi := rng.LengthUpperBound()
		if lo != 0 {
			fmt.Fprintf(sb, " (lenlo %d)", lo)
		}
		if hi < (1<<31) && hi >= 0 && hi != int(^uint(0)>>1) {
			fmt.Fprintf(sb, " (lenhi %d)", hi)
		}
	}
}
