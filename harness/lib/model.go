package lib

import (
	"bufio"
	"fmt"
	"io"
	"os"
	"os/exec"
	"strings"
)

// Model is a running instance of the Lean driver (line protocol: one line in, one line out).
type Model struct {
	cmd *exec.Cmd
	in  io.WriteCloser
	out *bufio.Reader
	N   int
}

func ModelPath() string {
	if p := os.Getenv("HCLMODEL"); p != "" {
		return p
	}
	return "/verif/lean/.lake/build/bin/hclmodel"
}

func StartModel() (*Model, error) {
	cmd := exec.Command(ModelPath())
	in, err := cmd.StdinPipe()
	if err != nil {
		return nil, err
	}
	out, err := cmd.StdoutPipe()
	if err != nil {
		return nil, err
	}
	cmd.Stderr = os.Stderr
	if err := cmd.Start(); err != nil {
		return nil, err
	}
	return &Model{cmd: cmd, in: in, out: bufio.NewReaderSize(out, 1<<20)}, nil
}

// Ask sends one line and returns the model's one-line answer.
func (m *Model) Ask(line string) (string, error) {
	if strings.ContainsAny(line, "\n\r") {
		return "", fmt.Errorf("protocol line contains newline")
	}
	if _, err := io.WriteString(m.in, line+"\n"); err != nil {
		return "", err
	}
	m.N++
	s, err := m.out.ReadString('\n')
	if err != nil {
		return "", fmt.Errorf("model died: %v", err)
	}
	return strings.TrimRight(s, "\r\n"), nil
}

func (m *Model) Close() {
	m.in.Close()
	m.cmd.Wait()
}
