package lib

import (
	"fmt"
	"sort"
	"strings"

	"github.com/zclconf/go-cty/cty"
)

// DumpValuePlain is DumpValue without the refinements of unknown values (the Lean value model does not
// carry refinements).
func DumpValuePlain(v cty.Value) string {
	var sb strings.Builder
	dumpValuePlain(&sb, v)
	return sb.String()
}

func dumpValuePlain(sb *strings.Builder, v cty.Value) {
	if v == cty.NilVal {
		sb.WriteString("nilval")
		return
	}
	if v.IsMarked() {
		uv, marks := v.Unmark()
		names := []string{}
		for m := range marks {
			names = append(names, hexs(fmt.Sprintf("%v", m)))
		}
		sort.Strings(names)
		sb.WriteString("(mark (" + strings.Join(names, " ") + ") ")
		dumpValuePlain(sb, uv)
		sb.WriteString(")")
		return
	}
	t := v.Type()
	if !v.IsKnown() {
		sb.WriteString("(unk " + DumpType(t) + ")")
		return
	}
	if v.IsNull() {
		sb.WriteString("(null " + DumpType(t) + ")")
		return
	}
	switch {
	case t.IsListType() || t.IsSetType():
		k := "list"
		if t.IsSetType() {
			k = "set"
		}
		sb.WriteString("(" + k + " " + DumpType(t.ElementType()))
		for it := v.ElementIterator(); it.Next(); {
			_, ev := it.Element()
			sb.WriteString(" ")
			dumpValuePlain(sb, ev)
		}
		sb.WriteString(")")
	case t.IsTupleType():
		sb.WriteString("(tup")
		for it := v.ElementIterator(); it.Next(); {
			_, ev := it.Element()
			sb.WriteString(" ")
			dumpValuePlain(sb, ev)
		}
		sb.WriteString(")")
	case t.IsMapType() || t.IsObjectType():
		if t.IsMapType() {
			sb.WriteString("(map " + DumpType(t.ElementType()))
		} else {
			sb.WriteString("(obj")
		}
		for it := v.ElementIterator(); it.Next(); {
			kv, ev := it.Element()
			sb.WriteString(" (" + hexs(kv.AsString()) + " ")
			dumpValuePlain(sb, ev)
			sb.WriteString(")")
		}
		sb.WriteString(")")
	default:
		dumpValue(sb, v)
	}
}

// Hex is the wire encoding of strings ("-" for the empty string).
func Hex(s string) string { return hexs(s) }
