package lib

// Rand is a splitmix64 generator; every random choice of a run derives from one seed.
type Rand struct{ s uint64 }

func NewRand(seed uint64) *Rand {
	// hash the seed so that consecutive seeds give unrelated streams (the raw state advances by a
	// constant, so seeds must not be mapped to states linearly)
	z := seed + 0xD1B54A32D192ED03
	z = (z ^ (z >> 30)) * 0xBF58476D1CE4E5B9
	z = (z ^ (z >> 27)) * 0x94D049BB133111EB
	z = z ^ (z >> 31)
	return &Rand{s: z}
}

func (r *Rand) U64() uint64 {
	r.s += 0x9E3779B97F4A7C15
	z := r.s
	z = (z ^ (z >> 30)) * 0xBF58476D1CE4E5B9
	z = (z ^ (z >> 27)) * 0x94D049BB133111EB
	return z ^ (z >> 31)
}

// Intn returns a value in [0,n).
func (r *Rand) Intn(n int) int {
	if n <= 0 {
		return 0
	}
	return int(r.U64() % uint64(n))
}

// Chance is true with probability p/q.
func (r *Rand) Chance(p, q int) bool { return r.Intn(q) < p }

func (r *Rand) Pick(xs []string) string { return xs[r.Intn(len(xs))] }

// Fork derives an independent stream.
func (r *Rand) Fork() *Rand { return NewRand(r.U64()) }

// Weighted picks an index according to weights.
func (r *Rand) Weighted(ws []int) int {
	t := 0
	for _, w := range ws {
		t += w
	}
	x := r.Intn(t)
	for i, w := range ws {
		if x < w {
			return i
		}
		x -= w
	}
	return len(ws) - 1
}
