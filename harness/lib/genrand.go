package lib

import (
	"fmt"
	"strings"
)

// ExprGen generates syntactically valid expression trees over the whole native grammar.
type ExprGen struct {
	R        *Rand
	Vars     []string
	Funcs    []string
	Strings  []string // alphabet of string contents
	Simple   bool     // no for / splat / templates with directives
	Heredocs bool
}

var DefaultStrings = []string{"", "a", "hello", "a b", "x\"y", "back\\slash", "new\nline", "tab\t", "${", "%{", "$${x}", "%%{", "$", "%", "é", "日本", "a${b", "𝄞", "\u0001", "é", "}", "{", "#", "//", "/*"}
var DefaultVars = []string{"a", "b", "foo", "bar_1", "x-y", "v", "each", "in", "if", "for", "true1", "null_"}
var DefaultFuncs = []string{"f", "upper", "ns::fn", "a::b::c", "min"}
var identsForKeys = []string{"a", "b", "key", "for", "if", "in", "x-y", "null", "true", "k1"}

func (g *ExprGen) str() string {
	ss := g.Strings
	if ss == nil {
		ss = DefaultStrings
	}
	n := 1 + g.R.Intn(2)
	var sb strings.Builder
	for i := 0; i < n; i++ {
		sb.WriteString(ss[g.R.Intn(len(ss))])
	}
	return sb.String()
}

func (g *ExprGen) vr() string {
	vs := g.Vars
	if vs == nil {
		vs = DefaultVars
	}
	return vs[g.R.Intn(len(vs))]
}

func (g *ExprGen) num() string {
	switch g.R.Intn(8) {
	case 0:
		return "0"
	case 1:
		return fmt.Sprintf("%d", g.R.Intn(10))
	case 2:
		return fmt.Sprintf("%d", g.R.Intn(100000))
	case 3:
		return fmt.Sprintf("%d.%d", g.R.Intn(100), g.R.Intn(1000))
	case 4:
		return fmt.Sprintf("%de%d", 1+g.R.Intn(9), g.R.Intn(5))
	case 5:
		return fmt.Sprintf("%d.%dE+%d", g.R.Intn(10), g.R.Intn(100), g.R.Intn(4))
	case 6:
		return "12345678901234567890123"
	default:
		return fmt.Sprintf("%d.5e-%d", g.R.Intn(10), 1+g.R.Intn(3))
	}
}

var binOps = []string{"||", "&&", "==", "!=", "<", "<=", ">", ">=", "+", "-", "*", "/", "%"}

// Tmpl generates a quoted template node.
func (g *ExprGen) Tmpl(depth int) *Node {
	n := &Node{K: "tmpl"}
	parts := 1 + g.R.Intn(4)
	for i := 0; i < parts; i++ {
		switch {
		case g.R.Chance(1, 2) || depth <= 0:
			s := g.str()
			// avoid creating an accidental introducer across part boundaries
			s = strings.TrimRight(s, "$%")
			n.Kids = append(n.Kids, &Node{K: "tlit", S: s})
		case g.Simple || g.R.Chance(3, 4):
			p := &Node{K: "interp", Kids: []*Node{g.Expr(depth - 1)}}
			if g.R.Chance(1, 6) {
				p.S = "~"
			}
			if g.R.Chance(1, 6) {
				p.S2 = "~"
			}
			n.Kids = append(n.Kids, p)
		case g.R.Chance(1, 2):
			p := &Node{K: "tif", Kids: []*Node{g.Expr(depth - 1), g.Tmpl(depth - 2)}}
			if g.R.Chance(1, 2) {
				p.Kids = append(p.Kids, g.Tmpl(depth-2))
			}
			n.Kids = append(n.Kids, p)
		default:
			p := &Node{K: "tfor", S: "tv", Kids: []*Node{g.Expr(depth - 1), g.Tmpl(depth - 2)}}
			if g.R.Chance(1, 3) {
				p.S2 = "tk"
			}
			n.Kids = append(n.Kids, p)
		}
	}
	// merge adjacent literals (the parser would)
	var merged []*Node
	for _, p := range n.Kids {
		if p.K == "tlit" && len(merged) > 0 && merged[len(merged)-1].K == "tlit" {
			merged[len(merged)-1].S += p.S
			merged[len(merged)-1].S = strings.TrimRight(merged[len(merged)-1].S, "$%")
			continue
		}
		merged = append(merged, p)
	}
	n.Kids = merged
	return n
}

// Expr generates an expression tree of at most the given depth.
func (g *ExprGen) Expr(depth int) *Node {
	if depth <= 0 {
		switch g.R.Intn(6) {
		case 0:
			return &Node{K: "num", S: g.num()}
		case 1:
			return &Node{K: "str", S: g.str()}
		case 2:
			return &Node{K: "bool", S: g.R.Pick([]string{"true", "false"})}
		case 3:
			return &Node{K: "null", S: "null"}
		default:
			return &Node{K: "var", S: g.vr()}
		}
	}
	ws := []int{10, 8, 6, 6, 5, 14, 5, 6, 6, 6, 5, 3, 3, 3, 3}
	if g.Simple {
		ws[11], ws[12], ws[13], ws[14] = 0, 0, 0, 0
	}
	switch g.R.Weighted(ws) {
	case 0:
		return g.Expr(0)
	case 1:
		return &Node{K: "attr", S: g.R.Pick(identsForKeys), Kids: []*Node{g.Expr(depth - 1)}}
	case 2:
		return &Node{K: "index", Kids: []*Node{g.Expr(depth - 1), g.Expr(depth - 1)}}
	case 3:
		fs := g.Funcs
		if fs == nil {
			fs = DefaultFuncs
		}
		n := &Node{K: "call", S: fs[g.R.Intn(len(fs))]}
		for i := g.R.Intn(4); i > 0; i-- {
			n.Kids = append(n.Kids, g.Expr(depth-1))
		}
		n.Flag = len(n.Kids) > 0 && g.R.Chance(1, 5)
		return n
	case 4:
		return &Node{K: "unop", S: g.R.Pick([]string{"-", "!"}), Kids: []*Node{g.Expr(depth - 1)}}
	case 5:
		return &Node{K: "binop", S: g.R.Pick(binOps), Kids: []*Node{g.Expr(depth - 1), g.Expr(depth - 1)}}
	case 6:
		return &Node{K: "cond", Kids: []*Node{g.Expr(depth - 1), g.Expr(depth - 1), g.Expr(depth - 1)}}
	case 7:
		n := &Node{K: "tuple"}
		for i := g.R.Intn(4); i > 0; i-- {
			n.Kids = append(n.Kids, g.Expr(depth-1))
		}
		return n
	case 8:
		n := &Node{K: "object"}
		for i := g.R.Intn(4); i > 0; i-- {
			var k *Node
			switch g.R.Intn(4) {
			case 0, 1:
				k = &Node{K: "ident", S: g.R.Pick(identsForKeys)}
			case 2:
				k = &Node{K: "str", S: g.str()}
			default:
				k = g.Expr(depth - 1)
			}
			n.Kids = append(n.Kids, k, g.Expr(depth-1))
		}
		// a first bare key `for` would be read as a for expression
		if len(n.Kids) > 0 && n.Kids[0].K == "ident" && n.Kids[0].S == "for" {
			n.Kids[0].S = "fore"
		}
		return n
	case 9:
		return g.Tmpl(depth)
	case 10:
		return &Node{K: "legacy", S: fmt.Sprintf("%d", g.R.Intn(12)), Kids: []*Node{g.Expr(depth - 1)}}
	case 11:
		n := &Node{K: "fortuple", S: "fv", Kids: []*Node{g.Expr(depth - 1), g.Expr(depth - 1)}}
		if g.R.Chance(1, 2) {
			n.S2 = "fk"
		}
		if g.R.Chance(1, 3) {
			n.Kids = append(n.Kids, g.Expr(depth-1))
		}
		return n
	case 12:
		n := &Node{K: "forobj", S: "fv", Kids: []*Node{g.Expr(depth - 1), g.Expr(depth - 1), g.Expr(depth - 1)}}
		if g.R.Chance(1, 2) {
			n.S2 = "fk"
		}
		n.Flag = g.R.Chance(1, 4)
		if g.R.Chance(1, 3) {
			n.Kids = append(n.Kids, g.Expr(depth-1))
		}
		return n
	case 13:
		return &Node{K: "fsplat", Kids: []*Node{g.Expr(depth - 1)}}
	default:
		return &Node{K: "asplat", Kids: []*Node{g.Expr(depth - 1)}}
	}
}

// ---------------------------------------------------------------------------
// Bodies

// BodyGen generates structural trees: K="body" with items K="attrdef" (S name, Kids[0] value) and
// K="block" (S type, Kids = labels (K="label", S text, Flag quoted) ... then the child body; Flag = one-line form).
type BodyGen struct {
	R       *Rand
	E       *ExprGen
	Labels  []string
	ExprDep int
}

var DefaultLabels = []string{"a", "b", "web", "x-y", "with space", "q\"uote", "100%", "a$b", "é", "back\\slash", "", "for", "${", "n\nl"}
var attrNames = []string{"a", "b", "name", "count", "x-y", "for", "if", "in", "enabled", "k1", "k2", "k3", "list", "cfg"}
var blockTypes = []string{"block", "resource", "service", "b", "dynamic", "x-y", "for"}

func (g *BodyGen) Body(depth int) *Node {
	b := &Node{K: "body"}
	used := map[string]bool{}
	n := g.R.Intn(5)
	if depth > 0 {
		n = 1 + g.R.Intn(5)
	}
	for i := 0; i < n; i++ {
		if depth > 0 && g.R.Chance(2, 5) {
			b.Kids = append(b.Kids, g.Block(depth-1))
			continue
		}
		name := g.R.Pick(attrNames)
		if used[name] {
			continue
		}
		used[name] = true
		b.Kids = append(b.Kids, &Node{K: "attrdef", S: name, Kids: []*Node{g.E.Expr(g.R.Intn(g.ExprDep + 1))}})
	}
	return b
}

func (g *BodyGen) Block(depth int) *Node {
	blk := &Node{K: "block", S: g.R.Pick(blockTypes)}
	labels := g.Labels
	if labels == nil {
		labels = DefaultLabels
	}
	for i := g.R.Intn(3); i > 0; i-- {
		l := &Node{K: "label", S: g.R.Pick(labels), Flag: true}
		if ValidIdent(l.S) && g.R.Chance(1, 2) {
			l.Flag = false
		}
		blk.Kids = append(blk.Kids, l)
	}
	body := g.Body(depth)
	// one-line form: exactly zero or one attribute
	if len(body.Kids) == 0 || (len(body.Kids) == 1 && body.Kids[0].K == "attrdef" && g.R.Chance(1, 2)) {
		blk.Flag = g.R.Chance(2, 3)
	}
	blk.Kids = append(blk.Kids, body)
	return blk
}

// ValidIdent is a conservative ASCII identifier test (bare labels / keys are drawn from ASCII names).
func ValidIdent(s string) bool {
	if s == "" {
		return false
	}
	for i, c := range s {
		switch {
		case c >= 'a' && c <= 'z', c >= 'A' && c <= 'Z', c == '_':
		case (c >= '0' && c <= '9' || c == '-') && i > 0:
		default:
			return false
		}
	}
	return true
}

// BodyTokens renders a body tree into layout tokens.
func (rd *Renderer) BodyTokens(out *[]Tk, b *Node) {
	for _, it := range b.Kids {
		switch it.K {
		case "attrdef":
			rd.emit(out, it.S, "=")
			rd.Expr(out, it.Kids[0])
			*out = append(*out, Tk{NL: true})
		case "block":
			rd.emit(out, it.S)
			for _, l := range it.Kids[:len(it.Kids)-1] {
				if l.Flag {
					rd.emit(out, `"`+EscapeQuoted(l.S)+`"`)
				} else {
					rd.emit(out, l.S)
				}
			}
			body := it.Kids[len(it.Kids)-1]
			rd.emit(out, "{")
			if it.Flag {
				if len(body.Kids) == 1 {
					rd.emit(out, body.Kids[0].S, "=")
					rd.Expr(out, body.Kids[0].Kids[0])
				}
				rd.emit(out, "}")
				*out = append(*out, Tk{NL: true})
			} else {
				*out = append(*out, Tk{NL: true})
				rd.BodyTokens(out, body)
				rd.emit(out, "}")
				*out = append(*out, Tk{NL: true})
			}
		}
	}
}
