package lib

import (
	"fmt"
	"strings"

	"github.com/hashicorp/hcl/v2"
	"github.com/hashicorp/hcl/v2/hclsyntax"
)

// TB is a token reduced to type and bytes.
type TB struct {
	T hclsyntax.TokenType
	B string
}

// LexSeq lexes a configuration into (type, bytes) pairs.
func LexSeq(src []byte) []TB {
	toks, _ := hclsyntax.LexConfig(src, "", hcl.InitialPos)
	out := make([]TB, len(toks))
	for i, t := range toks {
		out[i] = TB{t.Type, string(t.Bytes)}
	}
	return out
}

func TyName(t hclsyntax.TokenType) string { return strings.TrimPrefix(t.String(), "Token") }

// DiffKey names the token types around the first difference of two token sequences.
func DiffKey(a, b []TB) (string, bool) {
	n := len(a)
	if len(b) < n {
		n = len(b)
	}
	at := -1
	for i := 0; i < n; i++ {
		if a[i] != b[i] {
			at = i
			break
		}
	}
	if at < 0 {
		if len(a) == len(b) {
			return "", false
		}
		at = n
	}
	var parts []string
	for i := at; i <= at+2; i++ {
		if i >= 0 && i < len(a) {
			parts = append(parts, TyName(a[i].T))
		}
	}
	return strings.Join(parts, ","), true
}

// RenderChecked renders layout tokens under a random layout and makes sure (with the real lexer) that
// the layout did not merge or split tokens; otherwise it falls back to safer spacing.
func RenderChecked(toks []Tk, lay *Layout) string {
	canon := (&Layout{}).Render(toks, true)
	want := SigSeq([]byte(canon))
	for _, force := range []bool{false, true} {
		s := lay.Render(toks, force)
		if SigSeq([]byte(s)) == want {
			return s
		}
	}
	return canon
}

// SigSeq is the token sequence ignoring newlines and comments.
func SigSeq(src []byte) string {
	var sb strings.Builder
	toks, _ := hclsyntax.LexConfig(src, "", hcl.InitialPos)
	for _, t := range toks {
		if t.Type == hclsyntax.TokenNewline || t.Type == hclsyntax.TokenComment {
			continue
		}
		fmt.Fprintf(&sb, "%c%x|", rune(t.Type), t.Bytes)
	}
	return sb.String()
}

// RandomLayout picks layout options.
func RandomLayout(r *Rand) *Layout {
	return &Layout{R: r, CRLF: r.Chance(1, 8), Comments: r.Chance(1, 2), Tabs: r.Chance(1, 4)}
}

// MutateBytes applies 1-3 near-miss edits (insert / delete / replace of syntax fragments).
func MutateBytes(r *Rand, src []byte) []byte {
	out := append([]byte{}, src...)
	frag := []string{"{", "}", "[", "]", "(", ")", "\"", "${", "%{", "<<EOT\n", "EOT\n", "=", "\n", "#", "/*", "*/", ".", ",", "-", " ", "\xff", "\x00", "for", "in", "if", "?", ":", "=>", "...", "~}"}
	for k := 1 + r.Intn(3); k > 0; k-- {
		if len(out) == 0 {
			break
		}
		p := r.Intn(len(out))
		switch r.Intn(3) {
		case 0:
			out = append(out[:p], out[p+1:]...)
		case 1:
			f := frag[r.Intn(len(frag))]
			out = append(out[:p], append([]byte(f), out[p:]...)...)
		default:
			f := frag[r.Intn(len(frag))]
			out = append(out[:p], append([]byte(f), out[p+1:]...)...)
		}
	}
	return out
}
