package lib

import (
	"go/ast"
	"go/parser"
	"go/token"
	"os"
	"strconv"

	"github.com/hashicorp/hcl/v2/hclsyntax"
)

// tokenTypesFromSource reads every TokenType constant out of the current hclsyntax/token.go, so that a
// token type added to the code is not silently missing from the exhaustive tables.
func TokenTypesFromSource() ([]hclsyntax.TokenType, []string, error) {
	root := os.Getenv("HCL_REPO")
	if root == "" {
		root = "/repo"
	}
	fset := token.NewFileSet()
	f, err := parser.ParseFile(fset, root+"/hclsyntax/token.go", nil, 0)
	if err != nil {
		return nil, nil, err
	}
	var tys []hclsyntax.TokenType
	var names []string
	for _, d := range f.Decls {
		gd, ok := d.(*ast.GenDecl)
		if !ok || gd.Tok != token.CONST {
			continue
		}
		for _, s := range gd.Specs {
			vs := s.(*ast.ValueSpec)
			id, ok := vs.Type.(*ast.Ident)
			if !ok || id.Name != "TokenType" || len(vs.Values) != 1 {
				continue
			}
			lit, ok := vs.Values[0].(*ast.BasicLit)
			if !ok || lit.Kind != token.CHAR {
				continue
			}
			r, _, _, err := strconv.UnquoteChar(lit.Value[1:len(lit.Value)-1], '\'')
			if err != nil {
				return nil, nil, err
			}
			tys = append(tys, hclsyntax.TokenType(r))
			names = append(names, vs.Names[0].Name)
		}
	}
	return tys, names, nil
}
