package lib

import (
	"fmt"
	"strings"
)

// Node is the harness's own expression / body AST. It is rendered to tokens, then to text under a
// random layout; the same tree is sent to the Lean model as an s-expression.
type Node struct {
	K    string // kind
	S    string // name / operator / string content
	S2   string // second name (for: key variable)
	Kids []*Node
	Flag bool // call: final argument expanded with "..."; forobj: grouping "..."
	Sep  []int
}

func N(k string, s string, kids ...*Node) *Node { return &Node{K: k, S: s, Kids: kids} }

// Tk is one layout token: Text is never split; NL marks a required newline.
type Tk struct {
	Text string
	NL   bool
}

// precedence levels used only to decide where parentheses are required when rendering.
var binLevel = map[string]int{"||": 1, "&&": 2, "==": 3, "!=": 3, "<": 4, "<=": 4, ">": 4, ">=": 4, "+": 5, "-": 5, "*": 6, "/": 6, "%": 6}

func level(n *Node) int {
	switch n.K {
	case "cond":
		return 0
	case "binop":
		return binLevel[n.S]
	case "unop":
		return 7
	}
	return 9
}

// EscapeQuoted renders string content inside an HCL quoted template literal.
func EscapeQuoted(s string) string {
	var sb strings.Builder
	rs := []rune(s)
	for i, r := range rs {
		switch {
		case r == '"':
			sb.WriteString(`\"`)
		case r == '\\':
			sb.WriteString(`\\`)
		case r == '\n':
			sb.WriteString(`\n`)
		case r == '\r':
			sb.WriteString(`\r`)
		case r == '\t':
			sb.WriteString(`\t`)
		case (r == '$' || r == '%') && i+1 < len(rs) && rs[i+1] == '{':
			sb.WriteRune(r)
			sb.WriteRune(r)
		case r < 32 || r == 0x7f:
			fmt.Fprintf(&sb, `\u%04x`, r)
		default:
			sb.WriteRune(r)
		}
	}
	return sb.String()
}

// Renderer turns a Node into layout tokens. Paren decides on redundant parentheses.
type Renderer struct {
	R          *Rand
	ExtraParen int // chance in 100 of a redundant pair of parentheses around a sub-expression
}

func (rd *Renderer) emit(out *[]Tk, s ...string) {
	for _, x := range s {
		*out = append(*out, Tk{Text: x})
	}
}

// splatSpine: parentheses around such a node are not redundant when it is the source of a postfix
// operator (they end the splat's traversal).
func splatSpine(n *Node) bool {
	switch n.K {
	case "fsplat", "asplat":
		return true
	case "attr", "index", "legacy":
		return splatSpine(n.Kids[0])
	}
	return false
}

func (rd *Renderer) sub(out *[]Tk, n *Node, need bool) {
	if need || (rd.R != nil && rd.ExtraParen > 0 && !splatSpine(n) && rd.R.Intn(100) < rd.ExtraParen) {
		rd.emit(out, "(")
		rd.Expr(out, n)
		rd.emit(out, ")")
		return
	}
	rd.Expr(out, n)
}

func (rd *Renderer) tmplText(n *Node) string {
	// content of a quoted template (without the quotes)
	var sb strings.Builder
	for _, p := range n.Kids {
		switch p.K {
		case "tlit":
			sb.WriteString(EscapeQuoted(p.S))
		case "interp":
			var toks []Tk
			rd.Expr(&toks, p.Kids[0])
			sb.WriteString("${" + p.S)
			sb.WriteString(joinPlain(toks))
			sb.WriteString(p.S2 + "}")
		case "tif":
			var toks []Tk
			rd.Expr(&toks, p.Kids[0])
			sb.WriteString("%{if " + joinPlain(toks) + "}")
			sb.WriteString(rd.tmplText(p.Kids[1]))
			if len(p.Kids) > 2 {
				sb.WriteString("%{else}")
				sb.WriteString(rd.tmplText(p.Kids[2]))
			}
			sb.WriteString("%{endif}")
		case "tfor":
			var toks []Tk
			rd.Expr(&toks, p.Kids[0])
			vars := p.S
			if p.S2 != "" {
				vars = p.S2 + ", " + p.S
			}
			sb.WriteString("%{for " + vars + " in " + joinPlain(toks) + "}")
			sb.WriteString(rd.tmplText(p.Kids[1]))
			sb.WriteString("%{endfor}")
		}
	}
	return sb.String()
}

func joinPlain(toks []Tk) string {
	parts := make([]string, len(toks))
	for i, t := range toks {
		parts[i] = t.Text
		if t.NL {
			parts[i] = "," // inside a quoted template a newline separator is not available
		}
	}
	return strings.Join(parts, " ")
}

// Expr appends the tokens of an expression.
func (rd *Renderer) Expr(out *[]Tk, n *Node) {
	switch n.K {
	case "num", "raw":
		rd.emit(out, n.S)
	case "bool", "null", "var":
		rd.emit(out, n.S)
	case "str":
		rd.emit(out, `"`+EscapeQuoted(n.S)+`"`)
	case "tmpl":
		rd.emit(out, `"`+rd.tmplText(n)+`"`)
	case "attr":
		rd.sub(out, n.Kids[0], level(n.Kids[0]) < 9)
		rd.emit(out, ".", n.S)
	case "legacy":
		rd.sub(out, n.Kids[0], level(n.Kids[0]) < 9)
		rd.emit(out, ".", n.S)
	case "index":
		rd.sub(out, n.Kids[0], level(n.Kids[0]) < 9)
		rd.emit(out, "[")
		rd.Expr(out, n.Kids[1])
		rd.emit(out, "]")
	case "fsplat":
		rd.sub(out, n.Kids[0], level(n.Kids[0]) < 9)
		rd.emit(out, "[", "*", "]")
	case "asplat":
		rd.sub(out, n.Kids[0], level(n.Kids[0]) < 9)
		rd.emit(out, ".", "*")
	case "call":
		rd.emit(out, n.S, "(")
		for i, a := range n.Kids {
			if i > 0 {
				rd.emit(out, ",")
			}
			rd.Expr(out, a)
		}
		if n.Flag && len(n.Kids) > 0 {
			rd.emit(out, "...")
		} else if len(n.Kids) > 0 && rd.R != nil && rd.R.Chance(1, 8) {
			rd.emit(out, ",")
		}
		rd.emit(out, ")")
	case "binop":
		l := binLevel[n.S]
		rd.sub(out, n.Kids[0], level(n.Kids[0]) < l)
		rd.emit(out, n.S)
		rd.sub(out, n.Kids[1], level(n.Kids[1]) <= l)
	case "unop":
		rd.emit(out, n.S)
		rd.sub(out, n.Kids[0], level(n.Kids[0]) < 7)
	case "cond":
		rd.sub(out, n.Kids[0], level(n.Kids[0]) < 1)
		rd.emit(out, "?")
		rd.sub(out, n.Kids[1], false)
		rd.emit(out, ":")
		rd.sub(out, n.Kids[2], false)
	case "tuple":
		rd.emit(out, "[")
		for i, a := range n.Kids {
			if i > 0 {
				rd.emit(out, ",")
			}
			// a leading "for" identifier would turn this into a for expression
			rd.sub(out, a, a.K == "var" && a.S == "for" && i == 0)
		}
		if len(n.Kids) > 0 && rd.R != nil && rd.R.Chance(1, 8) {
			rd.emit(out, ",")
		}
		rd.emit(out, "]")
	case "object":
		rd.emit(out, "{")
		for i := 0; i+1 < len(n.Kids); i += 2 {
			if i > 0 {
				if rd.R != nil && rd.R.Chance(1, 3) {
					*out = append(*out, Tk{NL: true})
				} else {
					rd.emit(out, ",")
				}
			}
			k := n.Kids[i]
			if k.K == "ident" {
				rd.emit(out, k.S)
			} else if k.K == "str" || k.K == "tmpl" || k.K == "num" {
				rd.Expr(out, k)
			} else {
				rd.emit(out, "(")
				rd.Expr(out, k)
				rd.emit(out, ")")
			}
			if rd.R != nil && rd.R.Chance(1, 4) {
				rd.emit(out, ":")
			} else {
				rd.emit(out, "=")
			}
			rd.Expr(out, n.Kids[i+1])
		}
		rd.emit(out, "}")
	case "fortuple", "forobj":
		// Kids: coll, [key] val, cond?  — S = value var, S2 = key var; Sep[0]=1 when cond present
		open, close := "[", "]"
		if n.K == "forobj" {
			open, close = "{", "}"
		}
		rd.emit(out, open, "for")
		if n.S2 != "" {
			rd.emit(out, n.S2, ",")
		}
		rd.emit(out, n.S, "in")
		rd.Expr(out, n.Kids[0])
		rd.emit(out, ":")
		idx := 1
		if n.K == "forobj" {
			rd.Expr(out, n.Kids[idx])
			idx++
			rd.emit(out, "=>")
		}
		rd.Expr(out, n.Kids[idx])
		idx++
		if n.Flag {
			rd.emit(out, "...")
		}
		if idx < len(n.Kids) {
			rd.emit(out, "if")
			rd.Expr(out, n.Kids[idx])
		}
		rd.emit(out, close)
	case "paren":
		rd.emit(out, "(")
		rd.Expr(out, n.Kids[0])
		rd.emit(out, ")")
	default:
		panic("render: unknown node kind " + n.K)
	}
}

// Sexp gives the canonical s-expression of a node (strings in hex) for the model.
func (n *Node) Sexp() string {
	var sb strings.Builder
	n.sexp(&sb)
	return sb.String()
}

func hexs(s string) string {
	if s == "" {
		return "-"
	}
	return fmt.Sprintf("%x", []byte(s))
}

func (n *Node) sexp(sb *strings.Builder) {
	sb.WriteString("(" + n.K)
	switch n.K {
	case "num", "bool", "null", "raw":
		sb.WriteString(" " + n.S)
	case "binop", "unop":
		sb.WriteString(" " + opName[n.S])
	case "paren", "tuple", "object", "cond", "index", "fsplat", "asplat":
	default:
		sb.WriteString(" " + hexs(n.S))
	}
	if n.K == "fortuple" || n.K == "forobj" || n.K == "tfor" {
		sb.WriteString(" " + hexs(n.S2))
	}
	if n.K == "call" || n.K == "forobj" {
		if n.Flag {
			sb.WriteString(" 1")
		} else {
			sb.WriteString(" 0")
		}
	}
	for _, k := range n.Kids {
		sb.WriteString(" ")
		k.sexp(sb)
	}
	sb.WriteString(")")
}

var opName = map[string]string{"||": "or", "&&": "and", "==": "eq", "!=": "ne", "<": "lt", "<=": "le", ">": "gt", ">=": "ge",
	"+": "add", "-": "sub", "*": "mul", "/": "div", "%": "mod", "!": "not"}

// Size counts nodes.
func (n *Node) Size() int {
	s := 1
	for _, k := range n.Kids {
		s += k.Size()
	}
	return s
}

// Walk visits every node.
func (n *Node) Walk(f func(*Node)) {
	f(n)
	for _, k := range n.Kids {
		k.Walk(f)
	}
}

// ---------------------------------------------------------------------------
// Layout

// Layout renders layout tokens to source text with random spacing, comments and (inside
// parentheses / brackets) random newlines. With r == nil it renders canonically (one space).
type Layout struct {
	R        *Rand
	CRLF     bool
	Comments bool
	Tabs     bool
	NoNLIn   bool // never insert optional newlines
}

func (l *Layout) nl() string {
	if l.CRLF {
		return "\r\n"
	}
	return "\n"
}

func (l *Layout) gap(min int) string {
	if l.R == nil {
		if min > 0 {
			return " "
		}
		return " "
	}
	var sb strings.Builder
	switch l.R.Intn(10) {
	case 0, 1, 2:
	case 3, 4, 5, 6:
		sb.WriteString(" ")
	case 7:
		sb.WriteString("  ")
	case 8:
		if l.Tabs {
			sb.WriteString("\t")
		} else {
			sb.WriteString("   ")
		}
	case 9:
		if l.Comments {
			sb.WriteString(" /* c */ ")
		} else {
			sb.WriteString(" ")
		}
	}
	if sb.Len() == 0 && min > 0 {
		sb.WriteString(" ")
	}
	return sb.String()
}

// Render produces text. forceSpace makes every gap at least one space.
func (l *Layout) Render(toks []Tk, forceSpace bool) string {
	var sb strings.Builder
	var stack []string
	for i, t := range toks {
		if t.NL {
			if l.R != nil && l.Comments && l.R.Chance(1, 6) {
				switch l.R.Intn(3) {
				case 0:
					sb.WriteString(" # c")
				case 1:
					sb.WriteString(" // c")
				default:
					// an inline comment: unlike the other two its token does not contain the line ending
					sb.WriteString(" /* c */")
					if l.R.Chance(1, 4) {
						sb.WriteString(" /* d */")
					}
				}
			}
			sb.WriteString(l.nl())
			if l.R != nil && l.R.Chance(1, 8) {
				sb.WriteString(l.nl())
			}
			if l.R != nil && l.Comments && l.R.Chance(1, 10) {
				sb.WriteString("  # lead" + l.nl())
			}
			continue
		}
		if i > 0 && !toks[i-1].NL {
			min := 0
			if forceSpace {
				min = 1
			}
			g := l.gap(min)
			// optional newline where the innermost bracket makes it insignificant
			if l.R != nil && !l.NoNLIn && len(stack) > 0 && (stack[len(stack)-1] == "(" || stack[len(stack)-1] == "[") && l.R.Chance(1, 7) {
				g += l.nl() + strings.Repeat(" ", l.R.Intn(5))
			}
			sb.WriteString(g)
		} else if i > 0 && l.R != nil {
			sb.WriteString(strings.Repeat(" ", l.R.Intn(5)))
		}
		sb.WriteString(t.Text)
		switch t.Text {
		case "(", "[", "{":
			stack = append(stack, t.Text)
		case ")", "]", "}":
			if len(stack) > 0 {
				stack = stack[:len(stack)-1]
			}
		}
	}
	return sb.String()
}
