package lib

import (
	"encoding/json"
	"fmt"
	"os"
	"runtime/debug"
	"time"
)

// Ctx is what a property runner gets.
type Ctx struct {
	Prop   string
	Tier   string
	Seed   uint64
	R      *Rand
	Res    *Result
	Replay string
	Start  time.Time
	model  *Model
}

func (c *Ctx) Thorough() bool { return c.Tier == "thorough" }

// Scale picks the case count for the tier.
func (c *Ctx) Scale(quick, thorough int) int {
	if c.Thorough() {
		return thorough
	}
	return quick
}

// Elapsed is the wall time since the run started.
func (c *Ctx) Elapsed() time.Duration { return time.Since(c.Start) }

// HasModel is false when the check could not build the driver (the oracle still runs).
func (c *Ctx) HasModel() bool { return os.Getenv("HX_NO_MODEL") == "" }

// Model starts the Lean driver on first use.
func (c *Ctx) Model() *Model {
	if c.model == nil {
		m, err := StartModel()
		if err != nil {
			fmt.Fprintln(os.Stderr, "cannot start model driver:", err)
			os.Exit(3)
		}
		c.model = m
	}
	return c.model
}

// Ask queries the model; a dead driver is fatal (exit 3 = infrastructure error).
func (c *Ctx) Ask(line string) string {
	s, err := c.Model().Ask(line)
	if err != nil {
		fmt.Fprintln(os.Stderr, "model driver error:", err, "on line:", Trunc(line, 300))
		os.Exit(3)
	}
	return s
}

func (c *Ctx) Close() {
	if c.model != nil {
		c.model.Close()
	}
}

func Trunc(s string, n int) string {
	if len(s) > n {
		return s[:n] + "..."
	}
	return s
}

// Guard runs f, converting a panic of the implementation into a failure record.
func (c *Ctx) Guard(key string, input interface{}, f func()) (ok bool) {
	defer func() {
		if r := recover(); r != nil {
			c.Res.Fail(Failure{Kind: "oracle", Key: "panic:" + key, Desc: fmt.Sprintf("panic: %v\n%s", r, Trunc(string(debug.Stack()), 1500)), Input: input})
			ok = false
		}
	}()
	f()
	return true
}

// Runners is the registry of property runners (filled by the props/* packages' init functions).
var Runners = map[string]func(*Ctx){}

func Register(prop string, f func(*Ctx)) { Runners[prop] = f }

// ReplayInput reads the "input" field of a replay file written by bin/check.
func ReplayInput(path string) string {
	b, err := os.ReadFile(path)
	if err != nil {
		fmt.Fprintln(os.Stderr, err)
		os.Exit(3)
	}
	var m map[string]interface{}
	if err := json.Unmarshal(b, &m); err != nil {
		fmt.Fprintln(os.Stderr, err)
		os.Exit(3)
	}
	s, _ := m["input"].(string)
	return s
}

// Main is the body of every hx command: `hx <property> -tier quick|thorough -seed N -out result.json [-replay file]`.
func Main(args []string) {
	if len(args) < 1 {
		fmt.Fprintln(os.Stderr, "usage: hx <property> [flags]")
		os.Exit(2)
	}
	prop := args[0]
	if prop == "gen" {
		genMain(args[1:])
		return
	}
	tier, out, replay := "quick", "", ""
	var seed uint64 = 1
	for i := 1; i < len(args); i++ {
		next := func() string {
			i++
			if i < len(args) {
				return args[i]
			}
			return ""
		}
		switch args[i] {
		case "-tier", "--tier":
			tier = next()
		case "-seed", "--seed":
			fmt.Sscan(next(), &seed)
		case "-out", "--out":
			out = next()
		case "-replay", "--replay":
			replay = next()
		}
	}
	run, ok := Runners[prop]
	if !ok {
		fmt.Fprintln(os.Stderr, "unknown property", prop)
		os.Exit(2)
	}
	cx := &Ctx{Prop: prop, Tier: tier, Seed: seed, R: NewRand(seed), Res: NewResult(prop, tier, seed), Replay: replay, Start: time.Now()}
	func() {
		// last resort: a panic of the implementation that a runner did not guard; the run is deterministic in
		// (property, tier, seed), which is the replay
		defer func() {
			if r := recover(); r != nil {
				cx.Res.Fail(Failure{Kind: "oracle", Key: "panic:unguarded", Desc: fmt.Sprintf("panic: %v\n%s", r, Trunc(string(debug.Stack()), 3000)),
					Input: fmt.Sprintf("hx %s -tier %s -seed %d", prop, tier, seed)})
			}
		}()
		run(cx)
	}()
	cx.Close()
	if out != "" {
		if err := cx.Res.Write(out); err != nil {
			fmt.Fprintln(os.Stderr, err)
			os.Exit(3)
		}
	}
	fmt.Printf("hx %s: evaluations=%d distinct=%d corr=%d failures=%d\n", prop, cx.Res.Evaluations, cx.Res.Distinct, cx.Res.CorrChecked, len(cx.Res.Failures))
}

// genMain: `hx gen -table NAME -o FILE` regenerates one model parameter file from /repo's source.
func genMain(args []string) {
	table, out := "", ""
	for i := 0; i < len(args); i++ {
		switch args[i] {
		case "-table":
			i++
			table = args[i]
		case "-o":
			i++
			out = args[i]
		}
	}
	g, ok := Gens[table]
	if !ok {
		fmt.Fprintln(os.Stderr, "unknown table", table)
		os.Exit(2)
	}
	f, err := os.Create(out)
	if err != nil {
		fmt.Fprintln(os.Stderr, err)
		os.Exit(2)
	}
	if err := g(f); err != nil {
		f.Close()
		fmt.Fprintln(os.Stderr, "gen", table+":", err)
		os.Exit(1)
	}
	f.Close()
}
