# Per-property configuration of bin/check.
#  lean:    Lean modules holding the property theorems (all `theorem`s in them are audited)
#  gen:     model parameters regenerated from /repo's source before the proofs are re-checked
#  trusted: additions to the trusted base reported in the evidence
PROPS = {
    "C09": {
        "lean": ["Props.C09"],
        "gen": [],
        "trusted": ["the Ragel scanner is not modelled: LexStable is a hypothesis discharged by search (window enumeration + generated configurations)",
                    "spaceAfterToken/tokenBracketChange are dumped from the compiled code over their whole finite domain and passed to the model as parameter R"],
        "assumptions": ["theorems hold for every rule table R; byte-level statements assume LexStable"],
        "technique": "Lean 4 proof over a model of format.go generic in the rule tables + differential correspondence + lex-stability search",
        "level_text": "Kernel-checked theorems (for every rule table): format changes only SpacesBefore, its output spacing does not depend on the input spacing, token-level idempotence; byte-level idempotence and token preservation under the LexStable hypothesis. The model is tied to hclwrite/format.go by running both on the real token streams of generated, mutated and enumerated sources (exact spacing vectors) with the rule tables dumped from the compiled code; LexStable (the unmodelled scanner) is discharged by exhaustive short-window enumeration and generated configurations through the real Format.",
        "level_note": "Trusted: Lean kernel; axioms propext, Quot.sound; the Go harness (dumper, generators, differ). Not modelled: the Ragel scanner (LexStable is searched, not proved), grapheme segmentation (widths are supplied by the harness).",
    },
}

NOT_APPLICABLE = []
