# Per-property configuration of bin/check (single source of truth; MANIFEST.json is generated from it).
#  lean:    Lean modules holding the property theorems (all `theorem`s in them are audited)
#  gen:     model parameters regenerated from /repo's source before the proofs are re-checked
#  hx:      harness runners: the first is the property's own direct oracle (+ its correspondence);
#           further ones contribute only their correspondence results (model-vs-code tie of a shared model)
#  trusted: additions to the trusted base reported in the evidence

EVAL_TIE = "the evaluator model (HclModel/Expr/Eval.lean) is tied to hclsyntax/expression*.go + ops.go + go-cty by the EVAL correspondence (values with types, marks and unknowns; error/no-error) and VARS (reported roots) on generated expressions; cases outside the modelled fragment (sets, refinements of unknowns, big-float rounding, negative zero, element-type unification) are reported as unsupported and counted"

PROPS = {
    "C01": {
        "lean": ["Props.C01"],
        "gen": ["BinaryOps"],
        "hx": ["C01"],
        "trusted": [EVAL_TIE, "hclsyntax/spec.md operator table transcribed by hand (specOps)", "the Ragel scanner is not modelled: layouts reach the parser model as real token streams"],
        "assumptions": ["operator-grammar theorems hold for every level table; the compiled table is regenerated and proved equal to the specification's"],
        "technique": "Lean 4 proof (precedence-climbing parser round trip, generic in the regenerated operator table) + differential correspondence of the evaluator model + layout-independence oracle",
        "level_text": "Kernel-checked: the regenerated binaryOps table equals spec.md's (decide); for every level table, a tree printed with the parentheses precedence and left-associativity require parses back to itself, and every tree has such a rendering (parenthesize). The evaluator model is validated, not proved against a second spec-shaped evaluator: the EVAL correspondence compares value+type+marks and error presence with the real evaluator on type-directed generated expressions in 3 layouts each; the direct oracle checks layout independence (AST and value) on the real parser.",
        "level_note": "Trusted: Lean kernel; propext, Quot.sound, Classical.choice; Go harness. Partial: no theorem relates the evaluator model to a separately written spec semantics (the model is code-shaped; agreement with the code is checked by correspondence); lexing, big-float rounding, NFC not modelled.",
    },
    "C02": {
        "lean": ["Props.C02"],
        "gen": [],
        "hx": ["C02"],
        "trusted": ["structure-grammar model tied to hclsyntax/parser.go by the direct oracle (no driver op yet); expressions are one opaque token, quoted labels one token (their escape processing is C11)"],
        "assumptions": ["attribute names unique per body for the round trip; the Ragel scanner is not modelled"],
        "technique": "Lean 4 proof (body parser model behind the peeker: parse ∘ render = id for every layout; duplicates rejected) + render-parse-compare oracle over layouts",
        "level_text": "Kernel-checked on a model of ParseBody / ParseBodyItem / finishParsingBodyAttribute / finishParsingBodyBlock / parseSingleAttrBody and the peeker's comment rule: every rendering of a body tree (blank lines, #, // and /* */ comments, one-line and empty blocks, bare or quoted labels, nesting) parses without error to exactly the written items; two renderings of one tree parse alike; a redefined attribute at any depth is rejected. The direct oracle renders generated trees as bytes in 6 layouts (CRLF, BOM, no final newline, escapes in labels) through the real lexer and parser.",
        "level_note": "Trusted: Lean kernel; standard axioms; harness. Partial: byte-level lexing, heredoc values and label escapes are outside this model.",
    },
    "C04": {
        "lean": ["Props.C04"],
        "gen": [],
        "hx": ["C04"],
        "trusted": ["native body model tied to hclsyntax/structure.go by the direct oracle only (no driver op yet); JSON, merged and dynblock bodies are not modelled"],
        "assumptions": ["schemas without duplicate names; freshly parsed body (nothing hidden)"],
        "technique": "Lean 4 proof on a model of hclsyntax.Body.Content/PartialContent + direct oracle over native, JSON, merged and expanded bodies",
        "level_text": "Kernel-checked for native bodies: exhaustive processing returns exactly the matching items (schema order / source order) and errs iff something does not match; partial processing leaves exactly the rest visible; two-step = one-step for disjoint schemas (attributes, blocks per type in order, error presence). For the other three implementations the laws are checked by the direct oracle on the real code (k-step law, remainder law, uniformity across implementations).",
        "level_note": "Trusted: Lean kernel; propext, Quot.sound, Classical.choice; harness. Partial: JSON / merged / dynblock bodies are covered by the oracle, not by a theorem.",
    },
    "C05": {
        "lean": ["Props.C05"],
        "gen": [],
        "hx": ["C05", "C01"],
        "trusted": [EVAL_TIE, "refinements of unknown values are not modelled (the property's refinement clause is covered by the direct oracle only)"],
        "assumptions": ["function tables satisfying SoundFuncsS", "strict configuration: no sub-evaluation failed", "okExpr e / knownOk e, wfEnv of the concrete scope (see Props/C05.lean)"],
        "technique": "Lean 4 proof (abstraction soundness of the evaluator model by induction over expressions) + differential correspondence + abstract-vs-concrete oracle on the real evaluator",
        "level_text": "Kernel-checked on the evaluator model (strict configuration): abs_sound_partial — if the abstract evaluation (some variables unknown) and a concrete instantiation with well-typed values are both error-free, the concrete result is consistent with the abstract one (known parts equal, unknown parts typed), for expressions with okExpr (every conditional's two results have the same static primitive type, splat bodies statically typed, literals well typed) and function tables satisfying SoundFuncsS; known_in_known_out_partial — an error-free evaluation in a scope without unknowns yields a wholly known value, for everything the parser can produce (knownOk); eval_wf and staticTy_sound as supporting theorems. The full statements are refuted by nine kernel-checked witnesses (cex1..cex9), of which `(false ? x : 1) == \"1\"` with x unknown (abstract false, concrete true) and the conditional over an unselected dynamic branch are behaviours of the Go code (recorded finding C05-cond-unselected-branch). The direct oracle runs abstract vs concrete instantiations on the real code including refinements.",
        "level_note": "Trusted: Lean kernel; standard axioms; harness. Partial: refinements, sets and the other unsupported cases are outside the model.",
    },
    "C06": {
        "lean": ["Props.C06"],
        "gen": [],
        "hx": ["C06", "C01"],
        "trusted": [EVAL_TIE, "hcldec / dynblock mark propagation is covered by the direct oracle only"],
        "assumptions": ["function tables satisfying LawfulFuncs", "strict configuration (keepKeyMarks, keepDropped)"],
        "technique": "Lean 4 proof (noninterference of the evaluator model w.r.t. a mark) + differential correspondence + two-run oracle on the real evaluator and decoder",
        "level_text": "Kernel-checked on the evaluator model (strict configuration): two scopes that differ only inside marked values give error-free results that are equal except inside parts marked in both (noninterference_partial), hence results that differ carry the mark in both runs (rel_differ_marked, marks_propagate); outright for expressions built from literals, variables, attribute access, binary operators, tuples and templates (noninterference_plain); under the two-run side condition Stable for the rest, which excludes exactly the two channels that kernel-checked witnesses (12 theorems K_*/T_*) show to be real in the model and the Go code: the known-ness of a marked value inspected by unary operators, index/object keys, for collections, template joins and call expansion, and types of marked parts turned into content by conditional unification and splat. The statement for the Go configuration (object index by a marked key drops the mark) is refuted by a kernel-checked witness replayed on the code (recorded finding). strict_agrees: an error-free strict run equals the Go-configuration run with kept key marks. The direct oracle runs the two-run check on the real evaluator, hcldec and dynblock.",
        "level_note": "Trusted: Lean kernel; standard axioms; harness. Partial: see the side condition in Props/C06.lean; decoding is oracle-only.",
    },
    "C07": {
        "lean": ["Props.C07"],
        "gen": [],
        "hx": ["C07", "C01"],
        "trusted": [EVAL_TIE, "JSON expressions, hcldec.Variables and the dynblock walkers are covered by the direct oracle only"],
        "assumptions": [],
        "technique": "Lean 4 proof (evaluation depends only on the free variables; binders not reported) + VARS/EVAL correspondence + pruned-scope oracle",
        "level_text": "Kernel-checked on the evaluator model, for every expression, scope and function table: value and diagnostics depend only on the reported variables (agreement on fv ⇒ equal outcome; pruning the scope to fv changes nothing); for-expression iterators and splat symbols are not reported. fv is compared with Variables() on every generated expression. The direct oracle re-evaluates real expressions, JSON expressions and bodies under pruned and perturbed scopes.",
        "level_note": "Trusted: Lean kernel; standard axioms; harness. Partial: the body-level walkers (hcldec, dynblock) are oracle-only.",
    },
    "C09": {
        "lean": ["Props.C09"],
        "gen": [],
        "hx": ["C09"],
        "trusted": ["the Ragel scanner is not modelled: LexStable is a hypothesis discharged by search (window enumeration + generated configurations)",
                    "spaceAfterToken/tokenBracketChange are dumped from the compiled code over their whole finite domain and passed to the model as parameter R"],
        "assumptions": ["theorems hold for every rule table R; byte-level statements assume LexStable"],
        "technique": "Lean 4 proof over a model of format.go generic in the rule tables + differential correspondence + lex-stability search",
        "level_text": "Kernel-checked theorems (for every rule table): format changes only SpacesBefore, its output spacing does not depend on the input spacing, token-level idempotence; byte-level idempotence and token preservation under the LexStable hypothesis. The model is tied to hclwrite/format.go by running both on the real token streams of generated, mutated and enumerated sources (exact spacing vectors) with the rule tables dumped from the compiled code; LexStable (the unmodelled scanner) is discharged by exhaustive short-window enumeration and generated configurations through the real Format.",
        "level_note": "Trusted: Lean kernel; axioms propext, Quot.sound; the Go harness (dumper, generators, differ). Not modelled: the Ragel scanner (LexStable is searched, not proved), grapheme segmentation (widths are supplied by the harness).",
    },
    "C08": {
        "lean": ["Props.C08"],
        "gen": [],
        "hx": ["C08"],
        "trusted": ["the decoder model (HclModel/Dec/Decode.lean) covers Object, Tuple, Attr, Literal, Block, BlockList, BlockTuple, BlockMap, BlockObject, BlockAttrs, BlockLabel, Default; BlockSet, Expr/Transform/Refine/Validate specs, optional attributes and unknown bodies are covered by the direct oracle only"],
        "assumptions": ["wf: label counts positive, no dynamic types under BlockMap, DefaultSpec sides of equal implied type", "okSpec excludes the two recorded deviations (BlockList over dynamic element types, multi-label BlockMap)"],
        "technique": "Lean 4 proof (type conformance of the decoder model by induction over spec trees, with kernel-checked counterexamples for the recorded deviations) + conformance/denotation oracle on the real hcldec",
        "level_text": "Kernel-checked on the decoder model: for every well-formed spec tree outside the two recorded deviations and every body content (missing, extra, mistyped, duplicated items), a decode that returns yields a value whose type conforms to the implied type (equal wherever the implied type is not dynamic); includes the typing lemma of the conversion model (convert v t = ok v' ⇒ v' conforms to t). The two deviations of the current code are kernel-checked counterexamples replayed on hcldec. The direct oracle decodes generated spec/body pairs of every kind on the real code (panic, implied type, conformance, error presence, exact value).",
        "level_note": "Trusted: Lean kernel; standard axioms; harness. Partial: see trusted; schema extraction is C04's, expression evaluation C01's.",
    },
    "C10": {
        "lean": ["Props.C10"],
        "gen": [],
        "hx": ["C10"],
        "trusted": ["the loader model (HclModel/Write/Loader.lean) mirrors hclwrite/parser.go function by function; which ranges the native parser records is the business of C14"],
        "assumptions": ["loading does not panic; no traversal leaves tokens after its last step; attributes end where their expression ends (tight) for exact order"],
        "technique": "Lean 4 proof (the loader distributes every source token to exactly one node: permutation unconditionally, identity under tightness) + load/save oracle on the real hclwrite",
        "level_text": "Kernel-checked on the loader model, for arbitrary token lists and arbitrary ranges: whenever loading succeeds, serialising the tree yields a permutation of the source tokens (none lost, none duplicated) and exactly the source sequence when no attribute has tokens between its expression and its end of line; the partition primitive never loses a token. A kernel-checked witness shows the reordering that parseAttribute's straggler handling allows (latent: the native parser ends an attribute's range at its expression). The direct oracle loads and saves generated configurations over every traversal shape and compares tokens, bytes and exposed items with hclsyntax.",
        "level_note": "Trusted: Lean kernel; standard axioms; harness. Partial: exposure of names/labels/traversals is oracle-only.",
    },
    "C11": {
        "lean": ["Props.C11"],
        "gen": [],
        "hx": ["C11"],
        "trusted": ["string-literal model tied to hclwrite.escapeQuotedStringLit and the native scanner by the direct round-trip oracle; value / traversal / key generation beyond string literals is oracle-only"],
        "assumptions": ["unicode.IsPrint('{') = true"],
        "technique": "Lean 4 proof (escape/unescape round trip over all Unicode strings) + generate-parse-evaluate oracle",
        "level_text": "Kernel-checked: for every string and every printable-predicate that prints '{', the quoted-literal reader returns exactly the string that escapeQuotedStringLit was given (quotes, backslashes, controls, $/% runs before '{', astral characters); the hypothesis is shown necessary by a witness. Values, numbers, collection keys, traversals and labels are checked on the real code by generate → parse → evaluate → compare.",
        "level_note": "Trusted: Lean kernel; propext, Quot.sound; harness. Partial: only the string-literal layer is proved; UTF-8 and NFC are not modelled.",
    },
    "C12": {
        "lean": ["Props.C12"],
        "gen": [],
        "hx": ["C12"],
        "trusted": ["the pointer model of one body (node.go + ast_body.go) is tied to hclwrite by the WOP correspondence: random edit histories on the real root body and on the model, items compared after every operation", "token-level validity of the serialised file and nested bodies are covered by the direct oracle"],
        "assumptions": ["block handles are fresh (AppendNewBlock creates a new block each time)"],
        "technique": "Lean 4 refinement proof (doubly linked child list + item set refines a list/map model, for every edit history) + WOP correspondence + edit-history oracle",
        "level_text": "Kernel-checked, for every finite history of set / remove / rename attribute, append / remove block, append newline from the empty body: the pointer structure stays well-formed (one duplicate-free list consistent with first/last/before/after, items are attached children, unique attribute names), its structured content equals what the simple list/map model predicts (same items, same order), GetAttribute agrees with the model, and an edit leaves other attributes alone. The direct oracle applies histories (also SetLabels, SetType, raw tokens, traversals, nested and detached bodies, parsed files with comments) to the real API and checks the token frame, the accessors and that the result parses to the model.",
        "level_note": "Trusted: Lean kernel; standard axioms; harness. Partial: one body, contents opaque; the validity of the serialised text (newlines, single-line blocks) is oracle-only — that is where the recorded findings are.",
    },
    "C20": {
        "lean": ["Props.C20"],
        "gen": [],
        "hx": ["C20", "C01"],
        "trusted": [EVAL_TIE, "the type-expression model is tied to typeexpr by the direct round-trip oracle; the stand-alone traversal parser and the JSON static views are oracle-only"],
        "assumptions": ["no object type with `for` as first attribute name (recorded finding)"],
        "technique": "Lean 4 proof (static traversal = evaluation on the evaluator model; TypeString/getType round trip) + correspondence + static-vs-dynamic oracle",
        "level_text": "Kernel-checked on the evaluator model: an expression that is statically a traversal evaluates to exactly the value (and error presence; identical diagnostics when no null key or no error) that applying the traversal to the scope gives; the static parts of a tuple constructor evaluate to the elements of the whole. For type constraints: parseType (typeString ty) = ty for every type without a leading `for` attribute (witness that the guard is needed). The direct oracle compares AbsTraversalForExpr / TraverseAbs / ParseTraversalAbs / ExprList / ExprMap / ExprCall / TypeString on the real code in both syntaxes.",
        "level_note": "Trusted: Lean kernel; standard axioms; harness. Partial: ParseTraversalAbs agreement and JSON are oracle-only.",
    },
    "C13": {
        "lean": ["Props.C13"],
        "gen": [],
        "hx": ["C13"],
        "trusted": ["encoding/json's string and number validators are modelled by hand (validString/validNumber) and validated by the JSON correspondence", "textseg grapheme segmentation is a parameter (adv) supplied by the harness per input"],
        "assumptions": ["completeness needs SafeAdv (a cluster never swallows an ASCII byte); soundness holds for every segmentation"],
        "technique": "Lean 4 proof (scanner+parser model accepts exactly the RFC 8259 grammar, with the denoted value) + differential correspondence + reference-recogniser oracle",
        "level_text": "Kernel-checked: whatever the model of json/scanner.go + json/parser.go accepts is a JSON text denoting exactly the returned tree (any segmentation); under SafeAdv every JSON text is accepted with its value; the root-object/array rule for files. The full-strength iff (with UTF-8 validity) is refuted by a kernel-checked witness replayed on the code. The model is compared with the real parser on every generated, mutated and enumerated input (acceptance and syntax tree).",
        "level_note": "Trusted: Lean kernel; standard axioms; harness; hand-modelled validators. Partial: UTF-8 validity and SafeAdv are exactly where the code deviates (recorded findings); full-expression (template) mode is oracle-only.",
    },
    "C14": {
        "lean": ["Props.C14"],
        "gen": [],
        "hx": ["C14"],
        "trusted": ["the Ragel automaton is not modelled: which bytes form which token comes from the real scanner; tiling, gap content and cluster alignment are checked on every generated input by the direct oracle"],
        "assumptions": ["gaps contain only one-column single-byte clusters; token boundaries on cluster boundaries"],
        "technique": "Lean 4 proof (incremental position bookkeeping = recount from the start) + direct tiling/position/range-fidelity oracle",
        "level_text": "Kernel-checked: for every segmentation of an input into tokens and gaps, every start position and every mixture of newline and multi-byte clusters, emitToken's incremental byte/line/column equals an independent recount from the start; tokens are ordered, non-overlapping and end at the end of input. The direct oracle checks tiling, byte equality, positions and range fidelity on the real lexer in all modes, the JSON scanner and RangeScanner.",
        "level_note": "Trusted: Lean kernel; standard axioms; harness. Partial: the scanner automaton and textseg are outside the model.",
    },
    "C15": {
        "lean": ["Props.C15"],
        "gen": ["ParserSkel"],
        "hx": ["C15"],
        "trusted": ["the go/ast → skeleton translator (harness/lib/genskel.go)", "absence of other Go panics and of hangs is searched by the direct oracle, not proved"],
        "assumptions": ["callees are balanced (checked for every translated function together)"],
        "technique": "Lean 4 proof (verified balance checker, decided on the parser's push/pop skeleton regenerated from the Go AST) + near-valid mutation fuzzing of every entry point",
        "level_text": "Kernel-checked: balanced_sound (every terminating execution of every function of a balanced skeleton returns at its entry stack depth) and `balanced parserSkel = true` by decide on the skeleton regenerated from the current parser sources, so AssertEmptyIncludeNewlinesStack cannot fire on any path, recovery paths included. Totality, determinism, non-nil results and well-formed diagnostics of all 13 entry points are checked by mutation fuzzing with panic/hang capture.",
        "level_note": "Trusted: Lean kernel; propext, Quot.sound; the translator; harness. Partial: only the newline-stack panic is excluded by proof.",
    },
    "C17": {
        "lean": ["Props.C17"],
        "gen": [],
        "hx": ["C17"],
        "race": True,
        "trusted": ["the table model is tied to AnonSymbolExpr.setValue/clearValue/Value by the SYMTAB correspondence (random operation sequences over several contexts through the verif hooks)", "data races below the level of the atomic table operations are not expressible in the model: they are searched with the Go race detector"],
        "assumptions": ["every goroutine uses its own evaluation contexts; table operations are atomic (valuesLock)"],
        "technique": "Lean 4 proof (isolation of per-context symbol tables under every interleaving) + SYMTAB correspondence + concurrent stress under the race detector",
        "level_text": "Kernel-checked: for threads with pairwise disjoint context keys and EVERY interleaving of their atomic set/clear/get operations, each thread's operations stay in program order, each thread reads exactly what it reads running alone, and if every thread clears what it sets nothing is left in the table. The direct oracle runs 2-64 goroutines over shared parsed trees (native, JSON, dynblock-expanded) with per-goroutine contexts, compares every result with the solo result, checks for residue, and repeats the workload under -race.",
        "level_note": "Trusted: Lean kernel; standard axioms; harness; Go race detector for the memory-model part. Partial: only the symbol-table bookkeeping is proved; interleavings below operation level can only be sampled.",
    },
}

# properties whose Lean model is not built yet: the direct oracle exists and runs, but no theorem decides them
PENDING = {
    "C02": "native structure parser model not built yet (direct oracle exists: harness/props/c02)",
    "C03": "JSON-vs-native body equivalence model not built yet (direct oracle exists: harness/props/c03)",
    "C08": "hcldec decode model not built yet (direct oracle exists: harness/props/c08)",
    "C10": "writer-AST loader model not built yet (direct oracle exists: harness/props/c10)",
    "C12": "writer edit-history model not built yet (direct oracle exists: harness/props/c12)",
    "C16": "gohcl encode/decode pipeline model not built yet (direct oracle exists: harness/props/c16)",
    "C17": "symbol-table isolation model not built yet (direct oracle exists: harness/props/c17)",
    "C18": "dynblock unrolling model not built yet (direct oracle exists: harness/props/c18)",
    "C19": "ghost-taint theorem not proved yet (direct oracle exists: harness/props/c19)",
    "C20": "static-traversal agreement theorem not built yet (direct oracle exists: harness/props/c20)",
}

import os as _os
_LEAN = _os.path.join(_os.path.dirname(_os.path.dirname(_os.path.abspath(__file__))), "lean")
# a property is claimed only once the Lean module with its theorems exists in the tree
CLAIMED = {k: v for k, v in PROPS.items() if all(_os.path.exists(_os.path.join(_LEAN, m.replace(".", "/") + ".lean")) for m in v["lean"]) and not v.get("disabled")}
NOT_APPLICABLE = [{"property_id": k, "reason": "work in progress, not claimed yet: " + v} for k, v in sorted(PENDING.items()) if k not in CLAIMED]
for k in sorted(PROPS):
    if k not in CLAIMED and k not in PENDING:
        NOT_APPLICABLE.append({"property_id": k, "reason": "work in progress, not claimed yet: the theorems of this property are being proved (model, correspondence and direct oracle exist)"})
